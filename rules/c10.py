"""C10 zone transactions: API typestate, key normalisation, copy-on-write, all-or-nothing exits, override agreement."""
from __future__ import annotations

import ast

from engine.cfg import CFG, normalise_compare, atoms
from engine.dataflow import ReachingDefs
from engine import pat
from engine.model import src, stmt_key, walk_no_nested, dotted, AnalysisError
from engine.util import own_nodes, calls_with_nodes, where

RULES = {
    "R-10.15": "stored data is replaced, never edited: in dns.transaction.Transaction a value read from the store (self._get_rdataset / self._get_node) is not the receiver of a mutating call or an augmented assignment - a plain zone's writable version shares rdataset objects with the committed zone, so an in-place edit survives a rollback (the copying forms difference()/union()/intersection() build new sets)",
    "R-10.14": "names outside the zone are refused whatever the relativity setting: in dns.zone._validate_name the `not name.is_subdomain(origin)` refusal of an absolute name is not nested under a test of `relativize`",
    "R-10.13": "copy-on-write copies from the OLD node: in every `fresh.rdatasets.extend(old.rdatasets)` of a version class the source is not (an alias of) the fresh node itself - otherwise every untouched name below a new or removed delegation loses its records",
    "R-10.12": "delete_exact refuses unless EVERY given rdata is present: the DeleteNotExact('missing rdatas') raise is guarded by a subset test (`existing.intersection(rdataset) != rdataset` / `not rdataset.issubset(existing)`), not by disjointness",
    "R-10.11": "the SOA-only-at-the-origin test of Transaction._add accepts the origin in either spelling, like every other owner name: the refusal compares the name with BOTH names _origin_information() returns (the absolute origin and the effective one)",
    "R-10.10": "merging an rdataset into a stored one goes through Rdataset.add, where the singleton rule (CNAME, SOA, ...), the foreign-record refusal and the TTL minimum live (C07 R-07.7 adopted)",
    "R-10.9": "rdatasets are addressed by the full (rdclass, rdtype, covers) key wherever a zone, version, node or transaction call passes the type on; and the optional rdataset of delete()/delete_exact() is tested for presence by identity (an empty rdataset deletes nothing, it does not select the whole name)",
    "R-10.8": "what a transaction stores at a node obeys the node-level CNAME exclusivity filter (C09 R-09.3 node-filter adopted): CNAME-kind data evicts exactly the REGULAR rdatasets and vice versa",
    "R-10.7": "a rolled-back or failed transaction on a B-tree zone leaves the published version untouched only if the B-tree never writes a node it shares with it: C19 R-19.1 (ownership of every written node) is adopted",
    "R-10.1": "every public Transaction method passes _check_ended() before any low-level hook, and _check_read_only() before any mutating hook",
    "R-10.2": "every key used with self.nodes / self.changed / self.delegations in a Version class is the result of _validate_name or _maybe_cow_with_name (or comes from the map itself)",
    "R-10.3": "nodes are mutated only after copy-on-write; the published zone.nodes is replaced only at commit; a writable version copies the map",
    "R-10.4": "__exit__ commits iff no exception else rolls back; _end marks the transaction ended on every exit; _end_transaction ends exactly once",
    "R-10.6": "Transaction._add merges into the stored rdataset or into a copy made from it alone: the mutable copy of a committed (immutable) rdataset takes class, type, covers, records and TTL from the stored one, nothing from the rdataset being added",
    "R-10.5": "btreezone overrides keep the base obligations (changed.add on delete, empty-node removal, replace/delete on the cowed node)",
}

TXN = "dns.transaction.Transaction"
READ_HOOKS = {"_get_rdataset", "_get_node", "_iterate_rdatasets", "_iterate_names", "_name_exists", "_changed"}
WRITE_HOOKS = {"_put_rdataset", "_delete_name", "_delete_rdataset"}
END_HOOKS = {"_end_transaction"}
# public methods that by design work on ended transactions or never reach a hook
NOT_API = {"__init__", "__enter__", "__exit__", "add_unicode", "check_put_rdataset", "check_delete_rdataset", "check_delete_name"}

VERSION_CLASSES = ["dns.zone.Version", "dns.zone.WritableVersion", "dns.btreezone.WritableVersion"]
KEYED = {"nodes", "changed", "delegations"}
VALIDATORS = {"_validate_name"}
COW = {"_maybe_cow_with_name"}
# helper methods whose name parameter is documented as already validated: (method, param) -> reason
REQUIRES_VALIDATED = {
    ("dns.btreezone.WritableVersion._is_origin", "name"): "documented: 'Assumes name has already been validated'; call sites are checked",
    ("dns.btreezone.WritableVersion.update_glue_flag", "name"): "internal helper invoked with the validated delegation name; call sites are checked",
}
NODE_MUTATORS = {"replace_rdataset", "delete_rdataset", "find_rdataset", "_append_rdataset"}
LIST_MUTATORS = {"append", "extend", "insert", "remove", "pop", "clear", "sort", "reverse"}


def _self_calls(fi):
    out = []
    for n in ast.walk(fi.node):
        if isinstance(n, ast.Call) and isinstance(n.func, ast.Attribute) and isinstance(n.func.value, ast.Name) and n.func.value.id == "self":
            out.append(n)
    return out


def run(model, rep, tier):
    txn = model.cls(TXN)
    txn_classes = [txn] + model.subclasses(txn)
    # ------------------------------------------------------------------ R-10.1
    # transitive "reaches hook" summaries over self-calls
    def reach(ci, name, hooks, seen=None):
        seen = seen or set()
        if name in hooks:
            return True
        if name in seen:
            return False
        seen.add(name)
        f = model.lookup_method(ci, name)
        if f is None:
            return False
        return any(reach(ci, c.func.attr, hooks, seen) for c in _self_calls(f))

    def checked(ci, name, checker, hooks, depth=0):
        """True iff every path through method `name` passes `checker` before any hook-reaching self-call."""
        f = model.lookup_method(ci, name)
        if f is None or depth > 6:
            return (False, [], f, [])
        cfg = CFG(f.node, implicit_exc=False)
        gate, targets = [], []
        for (n, c) in calls_with_nodes(cfg):
            if isinstance(c.func, ast.Attribute) and isinstance(c.func.value, ast.Name) and c.func.value.id == "self":
                a = c.func.attr
                if a == checker:
                    gate.append(n.id)
                elif a not in hooks and a != name and reach(ci, a, hooks) and checked(ci, a, checker, hooks, depth + 1)[0]:
                    gate.append(n.id)  # delegating to a method that itself checks first
                elif reach(ci, a, hooks):
                    targets.append((n, c))
        bad = [(n, c) for (n, c) in targets if not cfg.dominated_by_set(n.id, gate)]
        return (not bad), bad, f, targets

    n_api = 0
    for ci in txn_classes:
        for name, f in sorted(ci.methods.items()):
            if name.startswith("_") and name not in ("__iter__",):
                continue
            if name in NOT_API or "property" in f.decorators():
                continue
            all_hooks = READ_HOOKS | WRITE_HOOKS | END_HOOKS
            if not reach(ci, name, all_hooks):
                continue
            n_api += 1
            res = checked(ci, name, "_check_ended", all_hooks)
            okk, bad, ff, targets = res
            if okk:
                rep.ok("R-10.1", f.qualname, where(f, f.node), f"_check_ended() dominates all {len(targets)} hook-reaching calls", stmt="ended")
            for (n, c) in bad:
                rep.bad("R-10.1", f.qualname, where(f, c), f"`{src(c)[:60]}` reaches a low-level hook without passing _check_ended(): an ended transaction can still be used",
                        stmt=f"ended: {src(c.func)}")
            if reach(ci, name, WRITE_HOOKS):
                okk, bad, ff, targets = checked(ci, name, "_check_read_only", WRITE_HOOKS)
                if okk:
                    rep.ok("R-10.1", f.qualname, where(f, f.node), f"_check_read_only() dominates all {len(targets)} mutating calls", stmt="read-only")
                for (n, c) in bad:
                    rep.bad("R-10.1", f.qualname, where(f, c), f"`{src(c)[:60]}` reaches a mutating hook without passing _check_read_only(): a reader can write",
                            stmt=f"read-only: {src(c.func)}")
    rep.floor("R-10.1", n_api, 12)
    # the two guards themselves
    ce = model.func(f"{TXN}._check_ended")
    t = [stmt_key(s) for s in ce.node.body]
    rep.check(any(k.startswith("if self._ended") for k in t) and "raise AlreadyEnded" in src(ce.node), "R-10.1", ce.qualname, where(ce, ce.node),
              "_check_ended raises AlreadyEnded when _ended", "_check_ended no longer raises when the transaction ended", stmt="guard-shape")
    cr = model.func(f"{TXN}._check_read_only")
    rep.check("if self.read_only" in src(cr.node) and "raise ReadOnly" in src(cr.node), "R-10.1", cr.qualname, where(cr, cr.node),
              "_check_read_only raises ReadOnly when read_only", "_check_read_only no longer raises for a read-only transaction", stmt="guard-shape")
    # hooks are reached only through the checked wrappers (who-may-call)
    for ci in txn_classes:
        for name, f in ci.methods.items():
            for c in _self_calls(f):
                if c.func.attr in ("_put_rdataset", "_delete_rdataset", "_delete_name"):
                    okk = name == "_checked" + c.func.attr
                    rep.check(okk, "R-10.1", f.qualname, where(f, c), f"{c.func.attr} only via its _checked wrapper",
                              f"{c.func.attr} called directly, bypassing the registered checks (CNAME exclusivity etc.)", stmt=f"direct {c.func.attr}")

    # ------------------------------------------------------------------ R-10.2
    n_keys = 0
    for cq in VERSION_CLASSES:
        ci = model.cls(cq)
        for name, f in sorted(ci.methods.items()):
            if name == "__init__":
                continue
            cfg = CFG(f.node)
            params = [p for p in f.params() if p != "self"]
            rd = ReachingDefs(cfg, f.params())
            for n in cfg.stmts():
                if n.copy_of_finally:
                    continue
                for (kexpr, what) in _key_uses(n.ast):
                    n_keys += 1
                    kinds = _key_kinds(model, f, cfg, rd, kexpr, n, set())
                    badk = sorted(k for k in kinds if not k.startswith("ok"))
                    rep.check(not badk, "R-10.2", f.qualname, where(f, kexpr), f"key `{src(kexpr)}` in {what} is validated ({', '.join(sorted(kinds))})",
                              f"key `{src(kexpr)}` used in {what} may be {', '.join(badk)}: absolute/relative spellings of one name address different entries",
                              stmt=f"{what} key {src(kexpr)}")
    rep.floor("R-10.2", n_keys, 18)
    # call sites of helpers that assume a validated name
    for (hq, p), reason in REQUIRES_VALIDATED.items():
        h = model.func(hq)
        pos = [x for x in h.params() if x != "self"].index(p)
        sites = 0
        for cq in VERSION_CLASSES:
            for name, f in model.cls(cq).methods.items():
                cfg = CFG(f.node)
                rd = ReachingDefs(cfg, f.params())
                for (n, c) in calls_with_nodes(cfg):
                    if isinstance(c.func, ast.Attribute) and c.func.attr == h.name and src(c.func.value) == "self" and len(c.args) > pos:
                        sites += 1
                        kinds = _key_kinds(model, f, cfg, rd, c.args[pos], n, set())
                        badk = sorted(k for k in kinds if not k.startswith("ok"))
                        rep.check(not badk, "R-10.2", f.qualname, where(f, c), f"{h.name}() receives a validated name",
                                  f"{h.name}() assumes a validated name but receives one that may be {', '.join(badk)}", stmt=f"arg of {h.name}")
        rep.check(sites > 0, "R-10.2", hq, where(h, h.node), "helper has checked call sites", "helper that assumes validated names has no analysable call site", stmt="call-sites")
    # _validate_name itself: shape of the normalisation
    vn = model.func("dns.zone._validate_name")
    t = src(vn.node)
    for frag, what in (("name.is_subdomain(origin)", "subdomain test for absolute names"), ("name.relativize(origin)", "relativization under `relativize`"),
                       ("name.derelativize(origin)", "derelativization of relative names")):
        rep.check(frag in t, "R-10.2", vn.qualname, where(vn, vn.node), f"_validate_name keeps the {what}", f"_validate_name lost the {what}", stmt=frag)
    vm = model.func("dns.zone.Version._validate_name")
    rep.check("_validate_name(name, self.origin, self.zone.relativize)" in src(vm.node), "R-10.2", vm.qualname, where(vm, vm.node),
              "Version._validate_name delegates with the version's origin and the zone's relativize flag", "Version._validate_name no longer normalises with (origin, relativize)", stmt="delegation")

    # ------------------------------------------------------------------ R-10.3
    n_mut = 0
    for cq in VERSION_CLASSES[1:]:
        ci = model.cls(cq)
        for name, f in sorted(ci.methods.items()):
            cfg = CFG(f.node)
            rd = ReachingDefs(cfg, f.params())
            for n in cfg.stmts():
                if n.copy_of_finally:
                    continue
                for (recv, what) in _node_mutations(n.ast):
                    if not isinstance(recv, ast.Name):
                        continue
                    n_mut += 1
                    kinds = _node_kinds(model, f, cfg, rd, recv, n)
                    badk = sorted(k for k in kinds if not k.startswith("ok"))
                    rep.check(not badk, "R-10.3", f.qualname, where(f, recv), f"`{what}` on an owned node ({', '.join(sorted(kinds))})",
                              f"`{what}` mutates a node that may be {', '.join(badk)} (shared with the published version): readers would see the write",
                              stmt=what)
    rep.floor("R-10.3", n_mut, 8)
    # `changed` only grows during a transaction (commit decides on it and freezing iterates it)
    for cq in VERSION_CLASSES[1:]:
        ci = model.cls(cq)
        for name, f in sorted(ci.methods.items()):
            for nd in ast.walk(f.node):
                if isinstance(nd, ast.Call) and isinstance(nd.func, ast.Attribute) and src(nd.func.value) == "self.changed" and nd.func.attr in ("discard", "remove", "clear", "pop", "difference_update", "intersection_update"):
                    rep.bad("R-10.3", f.qualname, where(f, nd), f"self.changed.{nd.func.attr}() forgets a touched name: the commit can be skipped (`len(changed) > 0`) or the node left unfrozen", stmt=f"changed.{nd.func.attr}")
                if isinstance(nd, ast.Assign) and any(src(t) == "self.changed" for t in nd.targets) and name != "__init__":
                    rep.bad("R-10.3", f.qualname, where(f, nd), "self.changed is rebound outside the constructor", stmt="rebind changed")
    # hooks forward every parameter (a dropped `covers`/`rdtype` silently widens or narrows the lookup)
    n_fw = 0
    for cq, names in (("dns.zone.Version", ("get_node", "get_rdataset")), ("dns.zone.WritableVersion", ("put_rdataset", "delete_rdataset", "delete_node", "_maybe_cow", "_maybe_cow_with_name")),
                      ("dns.btreezone.WritableVersion", ("put_rdataset", "delete_rdataset", "delete_node", "_maybe_cow_with_name", "update_glue_flag")),
                      ("dns.zone.Transaction", ("_get_rdataset", "_put_rdataset", "_delete_name", "_delete_rdataset", "_name_exists", "_get_node"))):
        ci = model.cls(cq)
        for mname in names:
            f = ci.methods.get(mname)
            if f is None:
                continue
            for p in [x for x in f.params() if x != "self"]:
                n_fw += 1
                used = any(isinstance(nd, ast.Name) and nd.id == p and isinstance(nd.ctx, ast.Load) for nd in ast.walk(f.node))
                rep.check(used, "R-10.5", f.qualname, where(f, f.node), f"parameter `{p}` is used", f"parameter `{p}` is never used: the operation ignores part of its key/argument", stmt=f"uses {p}")
    rep.floor("R-10.5-forward", n_fw, 25)
    # who may replace the published map
    zone = model.cls("dns.zone.Zone")
    for ci in [zone] + model.subclasses(zone):
        for name, f in ci.methods.items():
            for nd in ast.walk(f.node):
                if isinstance(nd, ast.Attribute) and nd.attr == "nodes" and isinstance(nd.ctx, ast.Store) and src(nd.value) == "self":
                    okk = name in ("__init__", "_commit_version", "_commit_version_unlocked")
                    rep.check(okk, "R-10.3", f.qualname, where(f, nd), "zone.nodes replaced only at construction/commit",
                              "zone.nodes is replaced outside commit", stmt="store self.nodes")
    for fi in model.all_functions():
        for nd in ast.walk(fi.node):
            if isinstance(nd, ast.Attribute) and nd.attr == "nodes" and isinstance(nd.ctx, ast.Store) and src(nd.value) in ("zone", "self.zone", "self.manager"):
                rep.bad("R-10.3", fi.qualname, where(fi, nd), "zone.nodes assigned from outside the zone's commit", stmt="store zone.nodes")
    wv = model.func("dns.zone.WritableVersion.__init__")
    t = src(wv.node)
    alias = any(isinstance(nd, ast.Assign) and src(nd.value) in ("zone.nodes",) for nd in ast.walk(wv.node)) or \
        any(isinstance(c, ast.Call) and src(c.func) == "super().__init__" and any(src(a) == "zone.nodes" for a in list(c.args) + [k.value for k in c.keywords]) for c in ast.walk(wv.node))
    rep.check("self.nodes.update(zone.nodes)" in t and not alias, "R-10.3", wv.qualname, where(wv, wv.node), "writable version copies the node map (update), never aliases it",
              "writable version aliases the published node map instead of copying it", stmt="copy-not-alias")
    bw = model.func("dns.btreezone.WritableVersion.__init__")
    t = src(bw.node)
    rep.check("original=version.nodes" in t and "Delegations(original=version.delegations)" in t, "R-10.3", bw.qualname, where(bw, bw.node),
              "B-tree version clones nodes and delegations copy-on-write (original=...)", "B-tree writable version does not clone nodes/delegations copy-on-write", stmt="cow-clone")

    # ------------------------------------------------------------------ R-10.4
    ex = model.func(f"{TXN}.__exit__")
    cfg = CFG(ex.node, implicit_exc=False)
    commits = [n for (n, c) in calls_with_nodes(cfg) if src(c.func) == "self.commit"]
    rolls = [n for (n, c) in calls_with_nodes(cfg) if src(c.func) == "self.rollback"]
    tests = [n for n in cfg.nodes if n.kind == "test" and ("exc_type", "is", "None") in atoms(normalise_compare(n.ast.test))]
    okk = len(commits) == 1 and len(rolls) == 1 and len(tests) == 1
    if okk:
        tt = tests[0]
        okk = cfg.edge_dominated(commits[0].id, {(tt.id, "t")}) and cfg.edge_dominated(rolls[0].id, {(tt.id, "f")}) and \
            atoms(normalise_compare(tt.ast.test)) == [("exc_type", "is", "None")]
        # every path where the txn has not ended does one of them
        ended_tests = [n for n in cfg.nodes if n.kind == "test" and any(a[0] == "self._ended" for a in atoms(normalise_compare(n.ast.test)))]
        skip = {(n.id, "f") for n in ended_tests if atoms(normalise_compare(n.ast.test)) == [("self._ended", "falsy", "")]} | \
               {(n.id, "t") for n in ended_tests if atoms(normalise_compare(n.ast.test)) == [("self._ended", "truthy", "")]}
        r = cfg.reachable([cfg.entry.id], blocked=[commits[0].id, rolls[0].id], blocked_edges=skip)
        okk = okk and cfg.exit.id not in r
    rep.check(okk, "R-10.4", ex.qualname, where(ex, ex.node), "__exit__: commit iff exc_type is None, else rollback, unless already ended",
              "__exit__ does not (commit iff exc_type is None, else roll back)", stmt="exit-shape")
    rets = [n for n in cfg.nodes if isinstance(n.ast, ast.Return)]
    rep.check(all(isinstance(r.ast.value, ast.Constant) and not r.ast.value.value for r in rets), "R-10.4", ex.qualname, where(ex, ex.node),
              "__exit__ never swallows the exception", "__exit__ returns a true value: the exception that aborted the transaction is swallowed", stmt="no-swallow")
    for (qn, arg) in ((f"{TXN}.commit", "True"), (f"{TXN}.rollback", "False")):
        f = model.func(qn)
        calls = [c for c in _self_calls(f) if c.func.attr == "_end"]
        rep.check(len(calls) == 1 and src(calls[0].args[0]) == arg, "R-10.4", qn, where(f, f.node), f"calls _end({arg})", f"does not call _end({arg})", stmt="end-arg")
    en = model.func(f"{TXN}._end")
    cfg = CFG(en.node)
    etn = [n for (n, c) in calls_with_nodes(cfg) if src(c.func) == "self._end_transaction"]
    marks = [n.id for n in cfg.nodes if isinstance(n.ast, ast.Assign) and src(n.ast) == "self._ended = True"]
    okk = len(etn) == 1 and bool(marks) and cfg.postdominated_by_set(etn[0].id, marks, exits=[cfg.exit.id, cfg.rexit.id])
    rep.check(okk, "R-10.4", en.qualname, where(en, en.node), "_ended is set on every exit of _end (normal and exceptional)",
              "_end can leave without setting _ended (a failed commit leaves a usable, half-applied transaction)", stmt="ended-in-finally")
    cfg_n = CFG(en.node, implicit_exc=False)
    etn_n = [n.id for (n, c) in calls_with_nodes(cfg_n) if src(c.func) == "self._end_transaction"]
    rep.check(bool(etn_n) and cfg_n.dominated_by_set(cfg_n.exit.id, etn_n), "R-10.4", en.qualname, where(en, en.node), "_end always hands the transaction back to its manager (_end_transaction on every path)",
              "_end can finish without calling _end_transaction (e.g. skipped for a rolled-back reader): the manager never learns that the transaction ended - a versioned zone keeps the reader registered "
              "(its version pinned for ever) or the write slot taken", stmt="end-transaction-always")
    chk = [n.id for (n, c) in calls_with_nodes(cfg) if src(c.func) == "self._check_ended"]
    rep.check(bool(etn) and cfg.dominated_by_set(etn[0].id, chk), "R-10.4", en.qualname, where(en, en.node), "_end refuses a second end",
              "_end does not check for a previous end (double commit)", stmt="end-once")
    et = model.func("dns.zone.Transaction._end_transaction")
    c4 = CFG(et.node, implicit_exc=False)
    enders = [n for n in c4.nodes if n.ast is not None and n.kind == "stmt" and any(
        isinstance(c, ast.Call) and isinstance(c.func, ast.Attribute) and c.func.attr in ("_end_read", "_commit_version", "_end_write") for c in own_nodes(n.ast))]
    okk = c4.dominated_by_set(c4.exit.id, [n.id for n in enders])
    # exactly one: no ender reachable from another
    for a in enders:
        r = c4.reachable([y for (y, k) in c4.succ[a.id]])
        if any(b.id in r for b in enders):
            okk = False
    rep.check(okk, "R-10.4", et.qualname, where(et, et.node), "every path ends the transaction at the zone exactly once",
              "a path through _end_transaction ends zero or several times", stmt="exactly-one-end")
    commit_nodes = [n for n in enders if "_commit_version" in src(n.ast)]
    tests = [n for n in c4.nodes if n.kind == "test" and "commit" in {a[0] for a in atoms(normalise_compare(n.ast.test))}]
    okk = bool(commit_nodes) and bool(tests) and all(c4.edge_dominated(cn.id, {(t.id, "t") for t in tests}) for cn in commit_nodes)
    rep.check(okk, "R-10.4", et.qualname, where(et, et.node), "the version is published only when commit is true",
              "the version can be published on rollback", stmt="publish-iff-commit")

    # ------------------------------------------------------------------ R-10.5
    for cq in ("dns.zone.WritableVersion", "dns.btreezone.WritableVersion"):
        ci = model.cls(cq)
        f = ci.methods.get("put_rdataset")
        if f is None:
            rep.blind("R-10.5", cq, ci.file, "put_rdataset not defined in class")
        else:
            cfg = CFG(f.node, implicit_exc=False)
            gate = [n.id for (n, c) in calls_with_nodes(cfg) if isinstance(c.func, ast.Attribute) and c.func.attr == "replace_rdataset" and c.args and src(c.args[0]) == "rdataset"]
            rep.check(bool(gate) and cfg.dominated_by_set(cfg.exit.id, gate), "R-10.5", f.qualname, where(f, f.node), "every path stores the rdataset on the node",
                      "a path through put_rdataset does not store the rdataset", stmt="stores")
        f = ci.methods.get("delete_rdataset")
        if f is None:
            rep.blind("R-10.5", cq, ci.file, "delete_rdataset not defined in class")
        else:
            cfg = CFG(f.node, implicit_exc=False)
            gate = [n.id for (n, c) in calls_with_nodes(cfg) if isinstance(c.func, ast.Attribute) and c.func.attr == "delete_rdataset" and src(c.func.value) != "self" and not src(c.func.value).startswith("super")]
            rep.check(bool(gate) and cfg.dominated_by_set(cfg.exit.id, gate), "R-10.5", f.qualname, where(f, f.node), "every path deletes from the node",
                      "a path through delete_rdataset does not delete from the node", stmt="deletes")
            dels = [n for n in cfg.nodes if isinstance(n.ast, ast.Delete) and src(n.ast.targets[0]).startswith("self.nodes[")]
            tests = [n for n in cfg.nodes if n.kind == "test" and atoms(normalise_compare(n.ast.test)) == [("len(node)", "==", "0")]]
            okk = len(dels) == 1 and len(tests) == 1 and cfg.edge_dominated(dels[0].id, {(tests[0].id, "t")}) and cfg.dominated_by_set(cfg.exit.id, [tests[0].id]) \
                and all(cfg.dominated_by_set(tests[0].id, [g]) or True for g in gate) and any(tests[0].id in cfg.reachable([g]) for g in gate)
            rep.check(okk, "R-10.5", f.qualname, where(f, f.node), "an emptied node is removed from the map (after the delete)",
                      "an emptied node is not removed (or is tested before the delete)", stmt="empty-node-removal")
        f = ci.methods.get("delete_node")
        if f is None:
            rep.blind("R-10.5", cq, ci.file, "delete_node not defined in class")
        else:
            okk = False
            for blk in _blocks(f.node):
                ks = [stmt_key(s) for s in blk]
                if "del self.nodes[name]" in ks and "self.changed.add(name)" in ks:
                    okk = True
            rep.check(okk, "R-10.5", f.qualname, where(f, f.node), "deleting a node records the name in `changed`",
                      "delete_node removes the node without recording the name in `changed` (commit would ignore the deletion)", stmt="changed-on-delete")
    f = model.func("dns.zone.WritableVersion._maybe_cow_with_name")
    okk = False
    for blk in _blocks(f.node):
        ks = [stmt_key(s) for s in blk]
        if "self.nodes[name] = new_node" in ks and "self.changed.add(name)" in ks and any(k.startswith("new_node = self.zone.node_factory()") for k in ks):
            okk = any("new_node.rdatasets.extend(node.rdatasets)" in src(s) for s in blk)
    rep.check(okk, "R-10.5", f.qualname, where(f, f.node), "cow creates a fresh node, copies the rdatasets, stores it and records the name",
              "copy-on-write no longer (creates a fresh node, copies rdatasets, stores it, records the name in `changed`)", stmt="cow-shape")
    cfgc = CFG(f.node, implicit_exc=False)
    tests = [n for n in cfgc.nodes if n.kind == "test" and isinstance(n.ast, ast.If)]
    okk = any(set(atoms(normalise_compare(t.ast.test))) == {("node", "is", "None"), ("name", "not in", "self.changed")} and normalise_compare(t.ast.test)[0] == "or" for t in tests)
    rep.check(okk, "R-10.5", f.qualname, where(f, f.node), "cow condition is `node is None or name not in self.changed`",
              "cow condition changed: a node shared with the published version may be returned for mutation", stmt="cow-condition")
    ub = model.func("dns.btreezone.WritableVersion._maybe_cow_with_name")
    rep.check("super()._maybe_cow_with_name(name)" in src(ub.node), "R-10.5", ub.qualname, where(ub, ub.node), "override delegates to the base cow",
              "override no longer delegates to the base copy-on-write", stmt="delegates")
    rep.assume("check callbacks registered with check_put_rdataset/... are user code and outside the analysed program")
    # ---------------------------------------------------------------- R-10.6
    ta = model.func("dns.transaction.Transaction._add")
    copies = [n for n in ast.walk(ta.node) if isinstance(n, ast.If) and "isinstance(existing, dns.rdataset.ImmutableRdataset)" in " ".join(src(n.test).split())]
    if len(copies) != 1:
        rep.blind("R-10.6", ta.qualname, where(ta, ta.node), "the mutable-copy arm `if isinstance(existing, ImmutableRdataset)` was not found", stmt="merge-base")
    else:
        body = copies[0].body
        assigned = {t_.id for s_ in body for x in ast.walk(s_) if isinstance(x, ast.Assign) for t_ in x.targets if isinstance(t_, ast.Name)}
        used = {x.id for s_ in body for x in ast.walk(s_) if isinstance(x, ast.Name) and isinstance(x.ctx, ast.Load)} - assigned - {"existing", "dns"}
        rebinds = any(isinstance(x, ast.Assign) and any(src(t_) == "existing" for t_ in x.targets) for s_ in body for x in ast.walk(s_))
        rep.check(not used and rebinds, "R-10.6", ta.qualname, where(ta, copies[0]), "the mutable copy is built from `existing` alone",
                  f"the mutable copy of the stored rdataset also depends on {sorted(used)}: properties of the rdataset being added (e.g. its TTL) leak into the merge base, so TTL minimisation differs between zone kinds",
                  stmt="merge-base")
        un = [c for c in ast.walk(ta.node) if isinstance(c, ast.Call) and src(c.func) == "existing.union"]
        rep.check(len(un) == 1 and [src(a) for a in un[0].args] == ["rdataset"], "R-10.6", ta.qualname, where(ta, ta.node), "the result is existing.union(rdataset)", "the merge is no longer existing.union(rdataset)", stmt="merge-union")
    rep.share(model, "C19", {"R-19.1"}, "R-10.7", "the B-tree zone's writable version is a copy-on-write clone of the published node map")
    rep.share(model, "C09", {"R-09.3"}, "R-10.8", "every put of a transaction ends in Node.replace_rdataset/_append_rdataset", only=lambda o: o.stmt in ("node-filter", "node-filter-tables", "classify"))
    rep.share(model, "C07", {"R-07.7"}, "R-10.10", "Transaction._add merges with existing.union(rdataset), i.e. Set.union_update; singleton types are kept single only by Rdataset.add")
    # ---------------------------------------------------------------- R-10.15
    SET_EDITS = {"add", "remove", "discard", "pop", "clear", "update", "union_update", "intersection_update", "difference_update", "symmetric_difference_update", "update_ttl",
                 "replace_rdataset", "delete_rdataset", "_append_rdataset", "append", "extend", "insert", "sort", "reverse"}
    n15 = 0
    from engine.dataflow import ReachingDefs as _RD15
    for f15 in sorted(model.cls("dns.transaction.Transaction").methods.values(), key=lambda g: g.qualname):
        if not any(isinstance(x, ast.Call) and src(x.func) in ("self._get_rdataset", "self._get_node") for x in ast.walk(f15.node)):
            continue
        cfg15 = CFG(f15.node, implicit_exc=False)
        rd15 = _RD15(cfg15, f15.params())

        def stored_at(name, node, depth=0):
            """may `name` hold an object read from the store when control is at `node`?"""
            if depth > 4:
                return False
            for d in rd15.reaching(name, node):
                if d.rhs is None:
                    continue
                if isinstance(d.rhs, ast.Call) and src(d.rhs.func) in ("self._get_rdataset", "self._get_node"):
                    return True
                if isinstance(d.rhs, ast.Name) and d.node is not None and stored_at(d.rhs.id, d.node, depth + 1):
                    return True
            return False

        bad15 = []
        for nd15 in cfg15.stmts():
            for x in own_nodes(nd15.ast):
                recv = None
                if isinstance(x, ast.Call) and isinstance(x.func, ast.Attribute) and x.func.attr in SET_EDITS and isinstance(x.func.value, ast.Name):
                    recv, what15 = x.func.value.id, "in-place " + x.func.attr
                elif isinstance(x, ast.AugAssign) and isinstance(x.target, ast.Name):
                    recv, what15 = x.target.id, "in-place AugAssign"
                elif isinstance(x, (ast.Assign, ast.AugAssign, ast.Delete)):
                    for t_ in (x.targets if isinstance(x, (ast.Assign, ast.Delete)) else [x.target]):
                        if isinstance(t_, (ast.Attribute, ast.Subscript)) and isinstance(t_.value, ast.Name):
                            recv, what15 = t_.value.id, "in-place store"
                if recv is not None and stored_at(recv, nd15):
                    bad15.append((x, what15))
        n15 += sum(1 for x in ast.walk(f15.node) if isinstance(x, ast.Call) and src(x.func) in ("self._get_rdataset", "self._get_node"))
        for (x, what15) in bad15:
            rep.bad("R-10.15", f15.qualname, where(f15, x), f"`{src(x)[:60]}` edits in place an object read from the store: the writable version of a plain zone shares its rdatasets with the committed zone, so the edit is "
                    "visible before commit and is not undone by a rollback (a failed IXFR leaves its deletions behind)", stmt=what15)
        if not bad15:
            rep.ok("R-10.15", f15.qualname, where(f15, f15.node), "objects read from the store are only read or copied", stmt="stored-not-edited")
    rep.floor("R-10.15", n15, 4)
    from rules.common import optional_results_by_identity, key_triple_forwarded
    optional_results_by_identity(model, rep, "R-10.9", {"dns.transaction"}, "the caller gave no rdataset/rdata arguments",
                                 "delete(name, <empty rdataset>) falls into the delete-the-whole-name arm and removes every rdataset at the name", 1)
    key_triple_forwarded(model, rep, "R-10.9", {"dns.node", "dns.zone", "dns.transaction", "dns.btreezone", "dns.versioned", "dns.xfr", "dns.zonefile"}, 15)
    # ---------------------------------------------------------------- R-10.11
    ta11 = model.func("dns.transaction.Transaction._add")
    unp = [n for n in ast.walk(ta11.node) if isinstance(n, ast.Assign) and isinstance(n.targets[0], ast.Tuple) and isinstance(n.value, ast.Call) and src(n.value.func) == "self._origin_information"]
    soa_if = [n for n in ast.walk(ta11.node) if isinstance(n, ast.If) and any(isinstance(b, ast.Raise) for b in n.body) and any(a[0] == "name" and a[1] == "!=" for a in atoms(normalise_compare(n.test)))]
    if len(unp) != 1 or len(soa_if) != 1 or len(unp[0].targets[0].elts) != 3:
        rep.blind("R-10.11", ta11.qualname, where(ta11, ta11.node), "the SOA origin test (`_origin_information()` unpacking and the raising `name != ...` test) was not found", stmt="soa-origin-spelling")
    else:
        elts = [src(e) for e in unp[0].targets[0].elts]
        compared = {a[2] for a in atoms(normalise_compare(soa_if[0].test)) if a[0] == "name" and a[1] == "!="} | {a[0] for a in atoms(normalise_compare(soa_if[0].test)) if a[2] == "name" and a[1] == "!="}
        rep.check(elts[0] in compared and elts[2] in compared and normalise_compare(soa_if[0].test)[0] in ("and", "atom"), "R-10.11", ta11.qualname, where(ta11, soa_if[0]),
                  "an SOA is refused only when its owner is neither the absolute nor the effective origin",
                  f"the SOA test compares the owner name only with {sorted(compared)} of ({', '.join(elts)}) = _origin_information(): the origin given in the other spelling (absolute on a relativized zone, "
                  "the default empty name of update_serial() on an absolute zone) is refused with 'non-origin SOA' although every other record accepts both spellings", stmt="soa-origin-spelling")
    # ---------------------------------------------------------------- R-10.14
    vn = model.func("dns.zone._validate_name")
    subs = [n for n in ast.walk(vn.node) if isinstance(n, ast.If) and any(isinstance(b, ast.Raise) for b in n.body) and any(a[0].endswith(".is_subdomain(origin)") and a[1] == "falsy" for a in atoms(normalise_compare(n.test)))]
    if not subs:
        rep.blind("R-10.14", vn.qualname, where(vn, vn.node), "the `if not name.is_subdomain(origin): raise KeyError` refusal was not found", stmt="out-of-zone-refused")
    for sb in subs[:1]:
        encl = [n for n in ast.walk(vn.node) if isinstance(n, ast.If) and n is not sb and any(y is sb for b in n.body + n.orelse for y in ast.walk(b))]
        cond = [n for n in encl if any(a[0] == "relativize" for a in atoms(normalise_compare(n.test)))]
        rep.check(not cond, "R-10.14", vn.qualname, where(vn, sb), "an absolute name outside the origin is refused for relativized and absolute zones alike",
                  "the out-of-zone refusal is nested under `if relativize`: on a zone created with relativize=False `www.example.net.` or `com.` is accepted by add/replace/get/delete, out-of-zone records are "
                  "committed and transactions that must abort go through", stmt="out-of-zone-refused")
    # ---------------------------------------------------------------- R-10.12
    td = model.func("dns.transaction.Transaction._delete")
    miss = [n for n in ast.walk(td.node) if isinstance(n, ast.If) and any(isinstance(b, ast.Raise) and src(b).rstrip(")").rstrip("'\"").endswith("missing rdatas") for b in n.body)]
    if len(miss) != 1:
        rep.blind("R-10.12", td.qualname, where(td, td.node), "the `raise DeleteNotExact(... missing rdatas)` guard was not found", stmt="exact-subset")
    else:
        t12 = miss[0].test
        e12 = pat.Env()
        inter_local = pat.find(td.node, "__i = __existing.intersection(__rds)\nif __i != __rds:\n    raise DeleteNotExact(...)", e12) is not None
        direct = pat.match(pat.parse_expr("__existing.intersection(__rds) != __rds"), t12, pat.Env()) or pat.match(pat.parse_expr("not __rds.issubset(__existing)"), t12, pat.Env()) \
            or pat.match(pat.parse_expr("not __existing.issuperset(__rds)"), t12, pat.Env())
        rep.check(bool(inter_local or direct), "R-10.12", td.qualname, where(td, miss[0]), "exactness = every given rdata is in the stored rdataset (subset test)",
                  f"the exactness test is `{src(t12)[:60]}`, not a subset test: a delete_exact of several rdatas of which only some exist removes those and commits instead of raising DeleteNotExact", stmt="exact-subset")
    # ---------------------------------------------------------------- R-10.13
    n_cp = 0
    for f13 in sorted(model.all_functions(), key=lambda g: g.qualname):
        if f13.module.name not in ("dns.zone", "dns.btreezone", "dns.versioned"):
            continue
        exts = [c for c in ast.walk(f13.node) if isinstance(c, ast.Call) and isinstance(c.func, ast.Attribute) and c.func.attr == "extend" and isinstance(c.func.value, ast.Attribute) and c.func.value.attr == "rdatasets"
                and c.args and isinstance(c.args[0], ast.Attribute) and c.args[0].attr == "rdatasets" and isinstance(c.args[0].value, ast.Name) and isinstance(c.func.value.value, ast.Name)]
        if not exts:
            continue
        cf = CFG(f13.node, implicit_exc=False)
        rd13 = ReachingDefs(cf, f13.params())
        for c in exts:
            n_cp += 1
            dst, src_ = c.func.value.value.id, c.args[0].value.id
            node13 = next((n for n in cf.stmts() if any(y is c for y in own_nodes(n.ast))), None)
            alias = dst == src_
            if node13 is not None and not alias:
                for df in rd13.reaching(src_, node13):
                    if df.rhs is not None and isinstance(df.rhs, ast.Name) and df.rhs.id == dst:
                        alias = True
            rep.check(not alias, "R-10.13", f13.qualname, where(f13, c), f"`{src(c)}` copies from the old node",
                      f"at `{src(c)}` the source `{src_}` is (an alias of) the fresh node `{dst}` itself - it was rebound before the copy: the fresh node stays empty and the name loses every rdataset", stmt="cow-copy-source")
    rep.floor("R-10.13", n_cp, 2)
    rep.meta["explanation"] = (
        "Typestate (dominance of _check_ended/_check_read_only before hook-reaching calls, with self-call summaries), sanitiser-before-sink "
        "taint analysis of map keys with reaching definitions, ownership of mutated nodes, and CFG shape rules for the exits. "
        "Decides structural preconditions; conformance to a reference model over operation sequences is NOT decided.")


def _blocks(fn):
    out = []
    for n in ast.walk(fn):
        for fld in ("body", "orelse", "finalbody"):
            b = getattr(n, fld, None)
            if isinstance(b, list) and b and isinstance(b[0], ast.stmt):
                out.append(b)
    return out


def _key_uses(st):
    """(key expr, description) for every keyed access to self.nodes/changed/delegations in the statement's own expressions."""
    out = []
    for e in own_nodes(st):
        if isinstance(e, ast.Subscript) and isinstance(e.value, ast.Attribute) and e.value.attr in KEYED and src(e.value.value) == "self":
            out.append((e.slice, f"self.{e.value.attr}[...]"))
        elif isinstance(e, ast.Call) and isinstance(e.func, ast.Attribute) and isinstance(e.func.value, ast.Attribute) \
                and e.func.value.attr in KEYED and src(e.func.value.value) == "self" and e.args \
                and e.func.attr in ("get", "add", "discard", "remove", "pop", "is_glue", "get_delegation", "setdefault", "__contains__"):
            out.append((e.args[0], f"self.{e.func.value.attr}.{e.func.attr}()"))
        elif isinstance(e, ast.Compare) and len(e.ops) == 1 and isinstance(e.ops[0], (ast.In, ast.NotIn)) and isinstance(e.comparators[0], ast.Attribute) \
                and e.comparators[0].attr in KEYED and src(e.comparators[0].value) == "self":
            out.append((e.left, f"in self.{e.comparators[0].attr}"))
    return out


def _key_kinds(model, f, cfg, rd, expr, at, seen) -> set:
    """Provenance kinds of a key expression: ok:* or raw:*"""
    if isinstance(expr, ast.Name):
        out = set()
        if (f.qualname, expr.id) in REQUIRES_VALIDATED:
            pdefs = True
        else:
            pdefs = False
        for d in rd.reaching(expr.id, at):
            key = (d.var, id(d.node))
            if key in seen:
                continue
            seen.add(key)
            if d.kind == "param":
                out.add("ok:documented-validated-param" if pdefs else f"raw:parameter `{d.var}`")
            elif d.kind == "assign":
                out |= _rhs_kinds(model, f, cfg, rd, d, seen)
            elif d.kind == "for":
                out |= _for_kinds(model, f, cfg, rd, d, seen)
            else:
                out.add(f"raw:{d.kind}")
        return out or {"raw:undefined"}
    if isinstance(expr, ast.Attribute) and src(expr) in ("dns.name.empty", "self.zone.origin", "self.origin"):
        return {"ok:origin-constant"}
    return {f"raw:expression `{src(expr)[:30]}`"}


def _rhs_kinds(model, f, cfg, rd, d, seen) -> set:
    v = d.rhs
    if isinstance(v, ast.Call) and isinstance(v.func, ast.Attribute):
        a = v.func.attr
        recv = src(v.func.value)
        if a in VALIDATORS and recv == "self":
            return {"ok:_validate_name"}
        if a in COW and recv in ("self", "super()") and d.index == 1:
            return {"ok:_maybe_cow_with_name[1]"}
        if a == "key" and not v.args:
            return {"ok:key-of-the-map"}
    if isinstance(v, ast.Call) and dotted(v.func) == "cast" and len(v.args) == 2 and isinstance(v.args[1], ast.Name):
        return _key_kinds(model, f, cfg, rd, v.args[1], d.node, seen)
    if isinstance(v, ast.Name):
        return _key_kinds(model, f, cfg, rd, v, d.node, seen)
    return {f"raw:`{src(v)[:40]}`"}


def _for_kinds(model, f, cfg, rd, d, seen) -> set:
    """for a, b in L: where L is a local list filled by L.append((x, y)); or iteration over the map / changed set."""
    it = d.rhs
    s = src(it)
    if s in ("self.changed", "self.nodes", "self.nodes.keys()", "self.delegations", "version.changed"):
        return {"ok:iterates-the-map"}
    if isinstance(it, ast.Name):
        out = set()
        found = False
        for (n, c) in calls_with_nodes(cfg):
            if isinstance(c.func, ast.Attribute) and c.func.attr == "append" and src(c.func.value) == it.id and c.args:
                a = c.args[0]
                if isinstance(a, ast.Tuple) and d.index is not None and d.index < len(a.elts):
                    found = True
                    out |= _key_kinds(model, f, cfg, rd, a.elts[d.index], n, seen)
        if found:
            return out
    return {f"raw:iteration over `{s[:30]}`"}


def _node_mutations(st):
    out = []
    for e in own_nodes(st):
        if isinstance(e, ast.Call) and isinstance(e.func, ast.Attribute):
            if e.func.attr in ("replace_rdataset", "delete_rdataset", "_append_rdataset") and not src(e.func.value).startswith(("self", "super")):
                out.append((e.func.value, f"{src(e.func.value)}.{e.func.attr}()"))
            if e.func.attr in LIST_MUTATORS and isinstance(e.func.value, ast.Attribute) and e.func.value.attr == "rdatasets":
                out.append((e.func.value.value, f"{src(e.func.value)}.{e.func.attr}()"))
    if isinstance(st, ast.AugAssign) and isinstance(st.target, ast.Attribute) and st.target.attr in ("flags",):
        out.append((st.target.value, f"{src(st.target)} {type(st.op).__name__}="))
    if isinstance(st, ast.Assign):
        for t in st.targets:
            if isinstance(t, ast.Attribute) and t.attr in ("flags", "rdatasets") and isinstance(t.value, ast.Name) and t.value.id != "self":
                out.append((t.value, f"{src(t)} ="))
    return out


def _node_kinds(model, f, cfg, rd, recv: ast.Name, at) -> set:
    out = set()
    for d in rd.reaching(recv.id, at):
        v = d.rhs
        if d.kind == "param":
            out.add(f"raw:parameter `{d.var}`")
            continue
        if d.kind == "for":
            # (ename, node) pairs collected in a local list of owned nodes: judge the appended element
            kinds = _for_node_kinds(model, f, cfg, rd, d)
            out |= kinds
            continue
        while isinstance(v, ast.Call) and dotted(v.func) == "cast" and len(v.args) == 2:
            v = v.args[1]
        if isinstance(v, ast.Name):
            out |= _node_kinds(model, f, cfg, rd, v, d.node)
            continue
        s = src(v) if v is not None else ""
        if isinstance(v, ast.Call) and isinstance(v.func, ast.Attribute) and v.func.attr in ("_maybe_cow", "_maybe_cow_with_name") and src(v.func.value) in ("self", "super()"):
            out.add("ok:copy-on-write")
        elif s.endswith("node_factory()") or s.startswith("Node("):
            out.add("ok:fresh node")
        elif isinstance(v, ast.Call) and isinstance(v.func, ast.Attribute) and v.func.attr in ("value", "get") or isinstance(v, ast.Subscript):
            # read from the map: shared unless the name is already in `changed` on this path
            owned = _only_via_changed(cfg, rd, d, at, recv.id)
            out.add("ok:already in `changed` (cowed earlier in this version)" if owned else "shared (read from the map without copy-on-write)")
        else:
            out.add(f"unknown origin `{s[:40]}`")
    return out or {"raw:undefined"}


def _only_via_changed(cfg, rd, d, at, var) -> bool:
    edges = set()
    for n in cfg.nodes:
        if n.kind == "test" and isinstance(n.ast, (ast.If, ast.While)):
            for (lhs, op, rhs) in atoms(normalise_compare(n.ast.test)):
                if rhs == "self.changed" and op == "not in":
                    edges.add((n.id, "t"))  # the not-yet-changed side must re-define the node
                elif rhs == "self.changed" and op == "in":
                    edges.add((n.id, "f"))
    if not edges:
        return False
    # the shared definition must be unable to reach the use through the "not in changed" side...
    still = rd.reaching(var, at, blocked_edges=None)
    # ...i.e. with the changed-side edges removed, d must no longer reach the use
    blocked = {(i, ("f" if k == "t" else "t")) for (i, k) in edges}
    r = [x for x in rd.reaching(var, at, blocked_edges=blocked) if x.node is d.node]
    return not r and any(x.node is d.node for x in still)


def _for_node_kinds(model, f, cfg, rd, d) -> set:
    it = d.rhs
    out = set()
    if isinstance(it, ast.Name):
        for (n, c) in calls_with_nodes(cfg):
            if isinstance(c.func, ast.Attribute) and c.func.attr == "append" and src(c.func.value) == it.id and c.args:
                a = c.args[0]
                if isinstance(a, ast.Tuple) and d.index is not None and d.index < len(a.elts) and isinstance(a.elts[d.index], ast.Name):
                    out |= _node_kinds(model, f, cfg, rd, a.elts[d.index], n)
    return out or {f"unknown origin: iteration over `{src(it)[:30]}`"}


WITNESSES = [
    {"id": "c10-twin-delete-rebinds-then-edits", "rule": "R-10.15", "file": "dns/transaction.py", "expect": "silent",
     "old": "                    rdataset = existing.difference(rdataset)", "new": "                    existing = existing.copy()\n                    existing.difference_update(rdataset)\n                    rdataset = existing"},
    {"id": "c10-delete-edits-stored-rdataset", "rule": "R-10.15", "file": "dns/transaction.py", "expect": "fires",
     "old": "                    rdataset = existing.difference(rdataset)", "new": "                    existing.difference_update(rdataset)\n                    rdataset = existing"},
    {"id": "c10-add-edits-stored-rdataset", "rule": "R-10.15", "file": "dns/transaction.py", "expect": "fires",
     "old": "                    rdataset = existing.union(rdataset)", "new": "                    existing |= rdataset\n                    rdataset = existing"},
    {"id": "c10-twin-delete-copy-then-edit", "rule": "R-10.15", "file": "dns/transaction.py", "expect": "silent",
     "old": "                    rdataset = existing.difference(rdataset)", "new": "                    remaining = existing.copy()\n                    remaining.difference_update(rdataset)\n                    rdataset = remaining"},
    {"id": "c10-out-of-zone-check-only-when-relativizing", "rule": "R-10.14", "file": "dns/zone.py", "expect": "fires",
     "old": "        if not name.is_subdomain(origin):\n            raise KeyError(\"name parameter must be a subdomain of the zone origin\")\n        if relativize:\n            name = name.relativize(origin)",
     "new": "        if relativize:\n            if not name.is_subdomain(origin):\n                raise KeyError(\"name parameter must be a subdomain of the zone origin\")\n            name = name.relativize(origin)"},
    {"id": "c10-end-skips-manager-for-reader-rollback", "rule": "R-10.4", "file": "dns/transaction.py", "expect": "fires",
     "old": "        try:\n            self._end_transaction(commit)\n        finally:\n            self._ended = True", "new": "        try:\n            if commit or not self.read_only:\n                self._end_transaction(commit)\n        finally:\n            self._ended = True"},
    {"id": "c10-delete-exact-tests-disjointness", "rule": "R-10.12", "file": "dns/transaction.py", "expect": "fires",
     "old": "                    if exact:\n                        intersection = existing.intersection(rdataset)\n                        if intersection != rdataset:\n                            raise DeleteNotExact(f\"{method}: missing rdatas\")",
     "new": "                    if exact and existing.isdisjoint(rdataset):\n                        raise DeleteNotExact(f\"{method}: missing rdatas\")"},
    {"id": "c10-glue-cow-copies-from-itself", "rule": "R-10.13", "file": "dns/btreezone.py", "expect": "fires",
     "old": "                new_node.rdatasets.extend(node.rdatasets)\n                self.changed.add(ename)\n                node = new_node\n", "new": "                self.changed.add(ename)\n                node = new_node\n                new_node.rdatasets.extend(node.rdatasets)\n"},
    {"id": "c10-soa-test-one-spelling", "rule": "R-10.11", "file": "dns/transaction.py", "expect": "fires",
     "old": "                    name != origin\n                    and name != absolute_origin\n                    and name != dns.name.empty\n", "new": "                    name != origin\n"},
    {"id": "c10-delete-optional-rdataset-truth-tested", "rule": "R-10.9", "file": "dns/transaction.py", "expect": "fires",
     "old": "            if rdataset is not None:\n                if rdataset.rdclass != self.manager.get_class():", "new": "            if rdataset:\n                if rdataset.rdclass != self.manager.get_class():"},
    {"id": "c10-replace-rdataset-drops-covers", "rule": "R-10.9", "file": "dns/node.py", "expect": "fires",
     "old": "        self.delete_rdataset(\n            replacement.rdclass, replacement.rdtype, replacement.covers\n        )", "new": "        self.delete_rdataset(replacement.rdclass, replacement.rdtype)"},
    {"id": "c10-twin-replace-rdataset-keywords", "rule": "R-10.9", "file": "dns/node.py", "expect": "silent",
     "old": "        self.delete_rdataset(\n            replacement.rdclass, replacement.rdtype, replacement.covers\n        )", "new": "        self.delete_rdataset(replacement.rdclass, covers=replacement.covers, rdtype=replacement.rdtype)"},
    {"id": "c10-btree-steal-writes-shared-node", "rule": "R-10.7", "file": "dns/btree.py", "expect": "fires",
     "old": "            if not right.is_minimal():\n                right = parent.maybe_cow_child(index + 1)\n", "new": "            if not right.is_minimal():\n"},
    {"id": "c10-merge-base-takes-new-ttl", "rule": "R-10.6", "file": "dns/transaction.py", "expect": "fires",
     "old": "                        trds = dns.rdataset.Rdataset(\n                            existing.rdclass, existing.rdtype, existing.covers\n                        )\n                        trds.update(existing)\n                        existing = trds",
     "new": "                        existing = dns.rdataset.from_rdata_list(rdataset.ttl, existing)"},
    {"id": "c10-delete-raw-key", "rule": "R-10.2", "file": "dns/zone.py", "expect": "fires",
     "old": "        node, name = self._maybe_cow_with_name(name)\n        node.delete_rdataset(self.zone.rdclass, rdtype, covers)",
     "new": "        node = self._maybe_cow(name)\n        node.delete_rdataset(self.zone.rdclass, rdtype, covers)"},
    {"id": "c10-get-node-no-check", "rule": "R-10.1", "file": "dns/transaction.py", "expect": "fires",
     "old": "        self._check_ended()\n        return _ensure_immutable_node(self._get_node(name))", "new": "        return _ensure_immutable_node(self._get_node(name))"},
    {"id": "c10-delete-exact-no-readonly", "rule": "R-10.1", "file": "dns/transaction.py", "expect": "fires",
     "old": "        self._check_read_only()\n        self._delete(True, args)", "new": "        self._delete(True, args)"},
    {"id": "c10-end-no-finally", "rule": "R-10.4", "file": "dns/transaction.py", "expect": "fires",
     "old": "        try:\n            self._end_transaction(commit)\n        finally:\n            self._ended = True",
     "new": "        self._end_transaction(commit)\n        self._ended = True"},
    {"id": "c10-exit-commits-on-error", "rule": "R-10.4", "file": "dns/transaction.py", "expect": "fires",
     "old": "            if exc_type is None:\n                self.commit()", "new": "            if exc_type is not None:\n                self.commit()"},
    {"id": "c10-no-cow", "rule": "R-10.3", "file": "dns/zone.py", "expect": "fires",
     "old": "        node = self._maybe_cow(name)\n        node.replace_rdataset(rdataset)",
     "new": "        name = self._validate_name(name)\n        node = self.nodes.get(name)\n        if node is None:\n            node = self._maybe_cow(name)\n        node.replace_rdataset(rdataset)"},
    {"id": "c10-alias-map", "rule": "R-10.3", "file": "dns/zone.py", "expect": "fires",
     "old": "            self.nodes.update(zone.nodes)", "new": "            self.nodes = zone.nodes"},
    {"id": "c10-btree-delete-node-no-changed", "rule": "R-10.5", "file": "dns/btreezone.py", "expect": "fires",
     "old": "            del self.nodes[name]\n            self.changed.add(name)\n\n    def put_rdataset", "new": "            del self.nodes[name]\n\n    def put_rdataset"},
    {"id": "c10-direct-put", "rule": "R-10.1", "file": "dns/transaction.py", "expect": "fires",
     "old": "                    else:\n                        self._checked_put_rdataset(name, rdataset)", "new": "                    else:\n                        self._put_rdataset(name, rdataset)"},
    {"id": "c10-btree-glue-raw", "rule": "R-10.2", "file": "dns/btreezone.py", "expect": "fires",
     "old": "        name = self._validate_name(name)\n        node = self.nodes.get(name)\n        if node is not None:\n            if node.is_delegation():",
     "new": "        node = self.nodes.get(name)\n        if node is not None:\n            if node.is_delegation():"},
    {"id": "c10-twin-validate-then-cow", "rule": "R-10.2", "file": "dns/zone.py", "expect": "silent",
     "old": "        node, name = self._maybe_cow_with_name(name)\n        node.delete_rdataset(self.zone.rdclass, rdtype, covers)",
     "new": "        name = self._validate_name(name)\n        node = self._maybe_cow(name)\n        node.delete_rdataset(self.zone.rdclass, rdtype, covers)"},
    {"id": "c10-cow-condition", "rule": "R-10.5", "file": "dns/zone.py", "expect": "fires",
     "old": "if node is None or name not in self.changed:", "new": "if node is None:"},
    {"id": "c10-changed-discard", "rule": "R-10.3", "file": "dns/zone.py", "expect": "fires",
     "old": "        if len(node) == 0:\n            del self.nodes[name]\n\n\n@dns.immutable.immutable\nclass ImmutableVersion", "new": "        if len(node) == 0:\n            del self.nodes[name]\n            self.changed.discard(name)\n\n\n@dns.immutable.immutable\nclass ImmutableVersion"},
    {"id": "c10-covers-dropped", "rule": "R-10.5", "file": "dns/zone.py", "expect": "fires",
     "old": "        return node.get_rdataset(self.zone.rdclass, rdtype, covers)\n\n    def keys(self):", "new": "        return node.get_rdataset(self.zone.rdclass, rdtype)\n\n    def keys(self):"},
]
