"""C03 message render/parse: header/question/RR-header layout agreement, count bookkeeping, compression table provenance, section index."""
from __future__ import annotations

import ast
import struct

from engine.cfg import CFG, normalise_compare, atoms
from engine.model import src, stmt_key, dotted, AnalysisError
from engine import pat
from engine.util import own_nodes, calls_with_nodes, where, with_exprs

RULES = {
    "R-03.13": "adopted: the class that decodes an rdata is chosen (and memoised) per (class, type) - C02 R-02.3; the opcode written into the flags reads back as itself for all sixteen values - C18 R-18.8; questions compare by name, class and type - C07 R-07.11",
    "R-03.12": "equal records hash equally (C07 R-07.3 adopted): the renderer writes every member of the rdata set and the parser merges equal ones",
    "R-03.11": "only the RDATA names the reader may find compressed are written compressed: the set of record writers that hand the message's compression table to an embedded name (or name helper) is the reasoned table below - any other type writes its names uncompressed (RFC 3597 4; e.g. the NSEC next name is case-preserving while the table is keyed case-insensitively)",
    "R-03.10": "0 is a message id like any other: optional numbers of the renderer and message constructors (id, flags, sizes) are tested for presence by identity with None, never by truth value (DoH and DoQ send id 0; a renderer that re-rolls id 0 makes parse(render(m)) != m)",
    "R-03.9": "EDNS options and records keep every field through parse: a value read from the wire is never dropped on the way to the constructor (C02 R-02.7 adopted)",
    "R-03.8": "rendering with the default limit never fails for a message that was parsed from the wire: the default derives from request_payload, else 65535 (C08 R-08.6 adopted)",
    "R-03.7": "the offsets entered into the compression table are the positions where the suffix starts and fit 14 bits (C01 R-01.4 adopted)",
    "R-03.6": "the compression table and Message.index are keyed by names: Name equality is derived from the one three-way comparison (C06 R-06.1 adopted), so two names with different label boundaries never collide",
    "R-03.1": "writer and reader agree on the message header, question and RR header layouts (struct formats, field order, section numbering, empty-rdataset form)",
    "R-03.2": "a section count is increased only after the size-tracked block completed, by the number of RRs that block wrote; Rdataset.to_wire returns that number",
    "R-03.3": "the only compression table on the render path is Renderer.compress and it always travels with Renderer.output; Rdataset/RRset pass both through unchanged",
    "R-03.5": "the OPT pseudo-record keeps its EDNS state through the padding path of the renderer (flags, payload size, options all passed to the rebuilt OPT) - shared with C08 R-08.4",
    "R-03.4": "the wire reader builds sections only through find_rrset with the six-component key; Message.index is written only there",
}
REN = "dns.renderer.Renderer"


def _packs(fn):
    return [(c, c.args[0].value, [src(a) for a in c.args[1:]]) for c in ast.walk(fn.node) if isinstance(c, ast.Call) and dotted(c.func) == "struct.pack" and c.args and isinstance(c.args[0], ast.Constant)]


def run(model, rep, tier):
    # ---------------------------------------------------------------- R-03.1
    wh = model.func(f"{REN}.write_header")
    pk = _packs(wh)
    okk = len(pk) == 1 and pk[0][1] == "!HHHHHH" and pk[0][2] == ["self.id", "self.flags", "self.counts[0]", "self.counts[1]", "self.counts[2]", "self.counts[3]"]
    rep.check(okk, "R-03.1", wh.qualname, where(wh, wh.node), "header = !HHHHHH id, flags, counts[0..3]", f"header is packed as {[(p[1], p[2]) for p in pk]}", stmt="header-write")
    rd = model.func("dns.message._WireReader.read")
    t = " ".join(src(rd.node).split())
    eh = pat.Env()
    okk = pat.has(rd.node, "(__id, __flags, __qd, __an, __ns, __ar) = self.parser.get_struct('!HHHHHH')", eh)
    rep.check(okk, "R-03.1", rd.qualname, where(rd, rd.node), "header read as !HHHHHH id, flags, qd, an, ns, ar", "header unpacking changed", stmt="header-read")
    calls = [(src(c.func), [src(a) for a in c.args]) for c in ast.walk(rd.node) if isinstance(c, ast.Call) and src(c.func) in ("self._get_question", "self._get_section")]
    want = [("self._get_question", ["MessageSection.QUESTION", eh.get("__qd")]), ("self._get_section", ["MessageSection.ANSWER", eh.get("__an")]),
            ("self._get_section", ["MessageSection.AUTHORITY", eh.get("__ns")]), ("self._get_section", ["MessageSection.ADDITIONAL", eh.get("__ar")])]
    rep.check(calls == want, "R-03.1", rd.qualname, where(rd, rd.node), "each count drives its own section, in wire order", f"section/count pairing is {calls}", stmt="count-section-pairing")
    rm = model.module("dns.renderer")
    ms = model.cls("dns.message.MessageSection")
    secs = {k: model.const(rm, rm.assigns[k]) for k in ("QUESTION", "ANSWER", "AUTHORITY", "ADDITIONAL") if k in rm.assigns}
    enum = {k: v for k, v in model.enum_members(ms).items() if k in secs}
    rep.check(secs == {"QUESTION": 0, "ANSWER": 1, "AUTHORITY": 2, "ADDITIONAL": 3} and enum == secs, "R-03.1", "dns.renderer / dns.message.MessageSection", "dns/renderer.py",
              "renderer section numbers equal MessageSection values 0..3", f"section numbering differs: renderer {secs}, MessageSection {enum}", stmt="section-numbers")
    aq = model.func(f"{REN}.add_question")
    pk = _packs(aq)
    gq = model.func("dns.message._WireReader._get_question")
    tq = " ".join(src(gq.node).split())
    eq = pat.Env()
    okk = len(pk) == 1 and pk[0][1] == "!HH" and pk[0][2] == ["rdtype", "rdclass"] and pat.has(gq.node, "(__t, __c) = self.parser.get_struct('!HH')", eq) \
        and pat.has(gq.node, "__q = self.parser.get_name(self.message.origin)", eq) and pat.has_expr(gq.node, "self.message._parse_rr_header(___sn, __q, __c, __t)", eq)
    rep.check(okk, "R-03.1", f"{aq.qualname} ~ {gq.qualname}", where(gq, gq.node), "question = name | !HH type, class on both sides", "question layout differs between writer and reader", stmt="question-layout")
    tw = model.func("dns.rdataset.Rdataset.to_wire")
    pk = _packs(tw)
    fm = sorted((p[1], tuple(p[2])) for p in pk)
    ew = pat.Env()
    okk = len(pk) == 2 and pat.has_expr(tw.node, "struct.pack('!HHIH', self.rdtype, __c, 0, 0)", ew) and pat.has_expr(tw.node, "struct.pack('!HHI', self.rdtype, __c, self.ttl)", ew)
    rep.check(okk, "R-03.1", tw.qualname, where(tw, tw.node), "RR header = !HHI type, class, ttl (+2-octet length prefix); empty set = one !HHIH RR with ttl 0, rdlength 0", f"RR header packing is {fm}", stmt="rr-header-write")
    pl = [w for n in ast.walk(tw.node) if isinstance(n, ast.With) for w in n.items if src(w.context_expr) == "prefixed_length(file, 2)"]
    rep.check(len(pl) == 1, "R-03.1", tw.qualname, where(tw, tw.node), "RDLENGTH is a 2-octet prefix back-patched around the RDATA", "RDLENGTH prefix is not `prefixed_length(file, 2)`", stmt="rdlength-write")
    gs = model.func("dns.message._WireReader._get_section")
    tg = " ".join(src(gs.node).split())
    es = pat.Env()
    okk = pat.has(gs.node, "__an = self.parser.get_name()", es) and pat.has(gs.node, "(__t, __c, __ttl, __len) = self.parser.get_struct('!HHIH')", es)
    rep.check(okk, "R-03.1", gs.qualname, where(gs, gs.node), "RR header read as name | !HHIH type, class, ttl, rdlength", "RR header unpacking changed", stmt="rr-header-read")
    rep.check(struct.calcsize("!HHI") + 2 == struct.calcsize("!HHIH"), "R-03.1", "struct", "-", "!HHI + 2-octet prefix has the size of !HHIH", "format sizes disagree", stmt="sizes", )
    pf = model.func("dns._render_util.prefixed_length")
    tp = " ".join(src(pf.node).split())
    ep = pat.Env()
    rep.check(pat.has(pf.node, "output.write(b'\\x00' * length_length)\n__start = output.tell()\nyield\n__end = output.tell()\n__n = __end - __start", ep) and pat.has(pf.node, "output.seek(__start - length_length)", ep)
              and pat.has_expr(pf.node, "output.write(__n.to_bytes(length_length, 'big'))", ep) and pat.has(pf.node, "try:\n    ...\nfinally:\n    output.seek(__end)", ep),
              "R-03.1", pf.qualname, where(pf, pf.node), "length prefix = big-endian count of the octets written in the body, back-patched, position restored", "prefixed_length changed", stmt="prefixed-length")
    rep.check(pat.has(gs.node, "with self.parser.restrict_to(__len):", es) and pat.has(gs.node, "if __len > 0:\n    raise dns.exception.FormError", es), "R-03.1", gs.qualname, where(gs, gs.node), "RDATA parsed within exactly rdlength octets; empty form requires rdlength 0",
              "RDATA is no longer confined to rdlength", stmt="rdlength-read")

    # ---------------------------------------------------------------- R-03.2
    ren = model.cls(REN)
    n_counts = 0
    for name, f in sorted(ren.methods.items()):
        cfg = CFG(f.node, implicit_exc=False)
        for n in cfg.stmts():
            st = n.ast
            if isinstance(st, (ast.AugAssign, ast.Assign)) and "self.counts[" in src(st.target if isinstance(st, ast.AugAssign) else st.targets[0]):
                n_counts += 1
                if not isinstance(st, ast.AugAssign) or not isinstance(st.op, ast.Add):
                    rep.bad("R-03.2", f.qualname, where(f, st), f"`{stmt_key(st)}`: a count is assigned, not incremented", stmt=stmt_key(st))
                    continue
                inside = "self._track_size()" in with_exprs(n)
                val = src(st.value)
                tws = [m for m in cfg.nodes if isinstance(m.ast, (ast.With,)) and any(src(i.context_expr) == "self._track_size()" for i in m.ast.items)]
                okk = (not inside) and bool(tws) and cfg.dominated_by_set(n.id, [w.id for w in tws])
                if isinstance(st.value, ast.Name):
                    defs = [m for m in cfg.nodes if isinstance(m.ast, ast.Assign) and src(m.ast.targets[0]) == val]
                    okk = okk and len(defs) == 1 and ".to_wire(" in src(defs[0].ast.value) and "self._track_size()" in with_exprs(defs[0])
                elif val != "1":
                    okk = False
                rep.check(okk, "R-03.2", f.qualname, where(f, st), f"`{stmt_key(st)}` after the tracked block, by the number of RRs written",
                          f"`{stmt_key(st)}` is inside the tracked block or not the block's RR count: a rolled-back record set is still counted (header counts exceed the records present)",
                          stmt="count " + src(st.target) + (" by the RRs written" if isinstance(st.value, ast.Name) else " by " + val))
    rep.floor("R-03.2", n_counts, 4)
    cfg = CFG(tw.node, implicit_exc=False)
    rets = [n for n in cfg.nodes if isinstance(n.ast, ast.Return)]
    vals = sorted(src(r.ast.value) for r in rets)
    emp = [t for t in cfg.nodes if t.kind == "test" and atoms(normalise_compare(t.ast.test)) == [("len(self)", "==", "0")]]
    okk = vals == ["1", "len(self)"] and len(emp) == 1
    if okk:
        one = [r for r in rets if src(r.ast.value) == "1"][0]
        many = [r for r in rets if src(r.ast.value) == "len(self)"][0]
        okk = cfg.edge_dominated(one.id, {(emp[0].id, "t")}) and cfg.edge_dominated(many.id, {(emp[0].id, "f")})
        loops = [n for n in cfg.nodes if n.kind == "for"]
        okk = okk and len(loops) == 1 and isinstance(loops[0].ast.iter, ast.Name) and cfg.dominated_by_set(many.id, [loops[0].id])
        ld = sorted(src(n.value) for n in ast.walk(tw.node) if isinstance(n, ast.Assign) and okk and src(n.targets[0]) == src(loops[0].ast.iter))
        okk = okk and ld == ["list(self)", "self"]
    rep.check(okk, "R-03.2", tw.qualname, where(tw, tw.node), "returns 1 for the single class/type-only RR and len(self) after writing one RR per record", "the returned RR count does not match the RRs written", stmt="returns-count")

    # ---------------------------------------------------------------- R-03.3
    n_tw = 0
    for name, f in sorted(ren.methods.items()):
        for c in ast.walk(f.node):
            if isinstance(c, ast.Call) and isinstance(c.func, ast.Attribute) and c.func.attr == "to_wire" and len(c.args) >= 2:
                args = [src(a) for a in c.args]
                if "self.output" not in args:
                    continue
                n_tw += 1
                i = args.index("self.output")
                comp = args[i + 1] if len(args) > i + 1 else "None"
                local = comp.isidentifier() and comp not in ("None",) and comp not in f.params()
                okk = comp in ("self.compress", "None") or local
                if local:
                    defs = sorted(src(n.value) for n in ast.walk(f.node) if isinstance(n, ast.Assign) and src(n.targets[0]) == comp)
                    okk = defs == ["None", "self.compress"]
                rep.check(okk, "R-03.3", f.qualname, where(f, c), f"to_wire(self.output, {comp}, ...): the renderer's own table (or none)",
                          f"to_wire receives `{comp}` as compression table together with the renderer's buffer: pointers would refer to offsets of another buffer", stmt="to_wire " + ("<local table>" if local else comp))
    rep.floor("R-03.3", n_tw, 4)
    stores = []
    for f in model.all_functions():
        for n in ast.walk(f.node):
            if isinstance(n, ast.Attribute) and n.attr == "compress" and isinstance(n.ctx, ast.Store):
                stores.append((f, n))
    rep.check(all(f.qualname == f"{REN}.__init__" for (f, n) in stores) and len(stores) == 1, "R-03.3", REN, "dns/renderer.py", "Renderer.compress is bound once, in the constructor",
              "Renderer.compress is rebound: " + ", ".join(f.qualname for (f, _n) in stores), stmt="table-bound-once")
    for qn in ("dns.rdataset.Rdataset.to_wire", "dns.rrset.RRset.to_wire"):
        f = model.func(qn)
        for c in ast.walk(f.node):
            if isinstance(c, ast.Call) and isinstance(c.func, ast.Attribute) and c.func.attr == "to_wire" and len(c.args) >= 2:
                args = [src(a) for a in c.args]
                if "file" in args:
                    i = args.index("file")
                    comp = args[i + 1] if len(args) > i + 1 else "None"
                    rep.check(comp == "compress", "R-03.3", qn, where(f, c), "file and compress are passed through together", f"`{src(c)[:60]}` does not pass the caller's table with the caller's buffer", stmt=f"{src(c.func)} passes {comp}")
    tsr = model.func("dns.message.Message._compute_tsig_reserve")
    rep.check(pat.has(tsr.node, "__f = io.BytesIO()\nself.tsig.to_wire(__f)"), "R-03.3", tsr.qualname, where(tsr, tsr.node), "size probes use a private buffer and no table", "a size probe shares the compression table", stmt="probe-no-table")

    # ---------------------------------------------------------------- R-03.4
    wr = model.cls("dns.message._WireReader")
    for name, f in wr.methods.items():
        for n in ast.walk(f.node):
            if isinstance(n, ast.Call) and isinstance(n.func, ast.Attribute) and n.func.attr in ("append", "insert", "extend") and src(n.func.value) in ("section", "self.message.answer", "self.message.authority", "self.message.additional", "self.message.question"):
                rep.bad("R-03.4", f.qualname, where(f, n), "the reader appends to a section directly, bypassing find_rrset and the index", stmt=src(n.func))
    frs = [c for c in ast.walk(gs.node) if isinstance(c, ast.Call) and src(c.func) == "self.message.find_rrset"]
    okk = len(frs) == 1 and pat.match(pat.parse_expr("self.message.find_rrset(__sec, __name, __c, __t, __cov, __del, True, __fu)"), frs[0], es) and len({es[k] for k in ("__sec", "__name", "__c", "__t", "__cov", "__del", "__fu")}) == 7
    rep.check(okk, "R-03.4", gs.qualname, where(gs, gs.node), "records go through find_rrset(section, name, class, type, covers, deleting, create=True, force_unique)", "the find_rrset call in the reader changed", stmt="find-rrset-args")
    fr = model.func("dns.message.Message.find_rrset")
    t = " ".join(src(fr.node).split())
    ei = pat.Env()
    rep.check(pat.has(fr.node, "__key = (__sn, name, rdclass, rdtype, covers, deleting)", ei) and pat.has(fr.node, "self.index[__key] = __rr", ei) and pat.has(fr.node, "__rr = self.index.get(__key)", ei)
              and pat.has(fr.node, "section.append(__rr)", ei), "R-03.4", fr.qualname, where(fr, fr.node),
              "six-component key; created RRsets are appended and indexed under the same key", "find_rrset key/index handling changed", stmt="index-key")
    for f in model.all_functions():
        for n in ast.walk(f.node):
            if isinstance(n, ast.Subscript) and isinstance(n.ctx, (ast.Store, ast.Del)) and isinstance(n.value, ast.Attribute) and n.value.attr == "index" and f.module.name in ("dns.message", "dns.update"):
                rep.check(f.qualname == "dns.message.Message.find_rrset", "R-03.4", f.qualname, where(f, n), "Message.index written in find_rrset", "Message.index is written outside find_rrset", stmt="index-write")
    rep.check(pat.has(gs.node, "if __ttl > 2147483647:\n    __ttl = 0", es), "R-03.4", gs.qualname, where(gs, gs.node), "TTLs with the top bit set are read as 0 (RFC 2181 8)", "TTL clamping changed", stmt="ttl-clamp")
    # header hooks called by the readers may only use state the reader populated: a message built by the reader is
    # constructed as factory(id=id), so attributes derived from other constructor parameters hold defaults
    msg = model.cls("dns.message.Message")
    n_hooks = 0
    for ci in [msg] + model.subclasses(msg):
        init = ci.methods.get("__init__")
        ctor_only = set()
        if init is not None:
            params = [p_ for p_ in init.params() if p_ not in ("self", "id")]
            for n in ast.walk(init.node):
                if isinstance(n, ast.Assign) and len(n.targets) == 1 and isinstance(n.targets[0], ast.Attribute) and src(n.targets[0].value) == "self":
                    names = {x.id for x in ast.walk(n.value) if isinstance(x, ast.Name)}
                    if names & set(params) and n.targets[0].attr not in ("origin",):
                        ctor_only.add(n.targets[0].attr)
        for hook in ("_parse_rr_header", "_parse_special_rr_header", "_get_one_rr_per_rrset"):
            f = ci.methods.get(hook)
            if f is None:
                continue
            n_hooks += 1
            used = sorted({n.attr for n in ast.walk(f.node) if isinstance(n, ast.Attribute) and src(n.value) == "self" and n.attr in ctor_only})
            rep.check(not used, "R-03.4", f.qualname, where(f, f.node), "parser hook uses only state the reader populated (sections, flags)",
                      f"parser hook reads self.{', self.'.join(used)}, which only the user-facing constructor sets: for a message built by the wire/text reader it holds the default (e.g. class IN), so decoded records differ from the rendered ones", stmt="hook-state")
    rep.floor("R-03.4-hooks", n_hooks, 3)
    from rules.c08 import check_padded_opt
    from rules.c08 import check_rollback_purge
    check_rollback_purge(model, rep, "R-03.3")
    check_padded_opt(model, rep, "R-03.5")
    rep.share(model, "C06", {"R-06.1"}, "R-03.6", "compress[n] and Message.index use Name.__eq__/__hash__; a name equal to a different name is emitted as a pointer to the wrong suffix")
    gqf = [c for c in ast.walk(gq.node) if isinstance(c, ast.Call) and src(c.func) == "self.message.find_rrset"]
    kwq = {k.arg: src(k.value) for c in gqf for k in c.keywords}
    rep.check(len(gqf) == 1 and kwq.get("create") == "True" and kwq.get("force_unique") == "True", "R-03.4", gq.qualname, where(gq, gq.node),
              "every question read from the wire becomes its own entry (find_rrset(create=True, force_unique=True))",
              f"questions are stored with {kwq}: a repeated question is folded into the first one, so the parsed message has fewer questions than QDCOUNT and re-renders to different octets", stmt="question-unique")
    rep.share(model, "C01", {"R-01.3", "R-01.4"}, "R-03.7", "every compressed name in a rendered message is a pointer produced by Name.to_wire from the table offsets")
    rep.share(model, "C07", {"R-07.3"}, "R-03.12", "an RRset is a hash set of rdatas: records that are equal but hash differently are both rendered, then merged by the parser, so the header counts exceed the records parsed back")
    rep.share(model, "C08", {"R-08.2", "R-08.6"}, "R-03.8", "re-rendering a parsed message must not hit a limit the original did not have: the default limit comes from request_payload (0 on a parsed message), not from the message's own OPT")
    rep.share(model, "C02", {"R-02.7"}, "R-03.9", "the OPT record's options and every rdata of a message are decoded by the per-type from_wire_parser methods")
    COMPRESSORS = {
        "dns.rdtypes.ANY.SOA.SOA._to_wire": "RFC 1035 type (mname, rname)",
        "dns.rdtypes.nsbase.NSBase._to_wire": "RFC 1035 types NS, CNAME, PTR (the uncompressed subclasses override it)",
        "dns.rdtypes.mxbase.MXBase._to_wire": "RFC 1035 type MX (the uncompressed subclasses override it)",
        "dns.rdtypes.CH.A.A._to_wire": "Chaosnet A: legacy behaviour of the library, readers decompress",
        "dns.rdtypes.IN.SRV.SRV._to_wire": "legacy behaviour of the library (RFC 2782 forbids, every reader accepts); equality of SRV targets is case-insensitive",
        "dns.rdtypes.IN.NAPTR.NAPTR._to_wire": "legacy behaviour of the library; replacement compared case-insensitively",
        "dns.rdtypes.ANY.AMTRELAY.AMTRELAY._to_wire": "hands the table to the Relay helper, which writes the name with compress=None",
        "dns.rdtypes.IN.IPSECKEY.IPSECKEY._to_wire": "hands the table to the Gateway helper, which writes the name with compress=None",
    }
    n_comp = 0
    for fw in sorted(model.all_functions(), key=lambda g: g.qualname):
        if fw.name != "_to_wire" or not fw.module.name.startswith("dns.rdtypes"):
            continue
        for c in ast.walk(fw.node):
            if isinstance(c, ast.Call) and isinstance(c.func, ast.Attribute) and c.func.attr in ("to_wire", "_to_wire") and not src(c.func).startswith("super()") \
                    and (len(c.args) >= 2 and src(c.args[1]) == "compress" or any(k.arg == "compress" and src(k.value) == "compress" for k in c.keywords)):
                n_comp += 1
                if fw.qualname in COMPRESSORS:
                    rep.excepted("R-03.11", fw.qualname, where(fw, c), COMPRESSORS[fw.qualname], stmt=f"compresses {src(c.func.value)[:30]}")
                else:
                    rep.bad("R-03.11", fw.qualname, where(fw, c), f"`{src(c)[:60]}` writes an embedded name with the message's compression table, and {fw.qualname} is not one of the types whose names may be "
                            "compressed: an independent decoder sees a bare pointer in opaque RDATA, and a case-preserving name comes back in the case of an earlier equal name", stmt=f"compresses {src(c.func.value)[:30]}")
    rep.floor("R-03.11", n_comp, 7)
    from rules.common import presence_by_identity
    presence_by_identity(model, rep, "R-03.10", ["dns.renderer", "dns.message"], {"id"}, "an optional number of the renderer/message API", "id 0, used by DoH/DoQ, is replaced by a random id", 2, "dns.renderer+dns.message")
    rep.share(model, "C02", {"R-02.3"}, "R-03.13", "Message parsing decodes every record through dns.rdata.get_rdata_class(rdclass, rdtype): a class memoised under a wider key than it was looked up with decodes later records of the same type as opaque data, keeping raw compression pointers")
    rep.share(model, "C18", {"R-18.8"}, "R-03.13", "the parsed message's class (query / update) and its opcode come from dns.opcode.from_flags(flags); the renderer writes dns.opcode.to_flags")
    rep.share(model, "C07", {"R-07.11"}, "R-03.13", "the parser files records into RRsets found with find_rrset/match and the tests compare parsed and original messages section by section with RRset.__eq__")
    rep.meta["explanation"] = (
        "Layout agreement of the hand-written writer/reader pairs at the message layer (struct formats folded and compared field by field), statement-position rule for the section counts, "
        "provenance of the compression table argument at every to_wire call that receives the renderer's buffer, and who-may-write on the section index. "
        "Equality of the parsed message and byte-identical re-rendering for all contents are NOT decided.")


WITNESSES = [
    {"id": "c03-nsec-next-name-compressed", "rule": "R-03.11", "file": "dns/rdtypes/ANY/NSEC.py", "expect": "fires",
     "old": "        self.next.to_wire(file, None, origin, False)", "new": "        self.next.to_wire(file, compress, origin, False)"},
    {"id": "c03-questions-merged", "rule": "R-03.4", "file": "dns/message.py", "expect": "fires",
     "old": "                section, qname, rdclass, rdtype, create=True, force_unique=True\n            )\n\n    def _add_error", "new": "                section, qname, rdclass, rdtype, create=True\n            )\n\n    def _add_error"},
    {"id": "c03-counts-swapped", "rule": "R-03.1", "file": "dns/renderer.py", "expect": "fires",
     "old": "                    self.counts[1],\n                    self.counts[2],", "new": "                    self.counts[2],\n                    self.counts[1],"},
    {"id": "c03-count-inside-track", "rule": "R-03.2", "file": "dns/renderer.py", "expect": "fires",
     "old": "            n = rrset.to_wire(self.output, self.compress, self.origin, **kw)\n        self.counts[section] += n", "new": "            n = rrset.to_wire(self.output, self.compress, self.origin, **kw)\n            self.counts[section] += n"},
    {"id": "c03-second-table", "rule": "R-03.3", "file": "dns/renderer.py", "expect": "fires",
     "old": "            qname.to_wire(self.output, self.compress, self.origin)", "new": "            qname.to_wire(self.output, {}, self.origin)"},
    {"id": "c03-reader-swaps-sections", "rule": "R-03.1", "file": "dns/message.py", "expect": "fires",
     "old": "            self._get_section(MessageSection.AUTHORITY, aucount)\n            self._get_section(MessageSection.ADDITIONAL, adcount)", "new": "            self._get_section(MessageSection.AUTHORITY, adcount)\n            self._get_section(MessageSection.ADDITIONAL, aucount)"},
    {"id": "c03-empty-returns-zero", "rule": "R-03.2", "file": "dns/rdataset.py", "expect": "fires",
     "old": "            file.write(struct.pack(\"!HHIH\", self.rdtype, rdclass, 0, 0))\n            return 1", "new": "            file.write(struct.pack(\"!HHIH\", self.rdtype, rdclass, 0, 0))\n            return 0"},
    {"id": "c03-rdataset-drops-table", "rule": "R-03.3", "file": "dns/rdataset.py", "expect": "fires",
     "old": "                    rd.to_wire(file, compress, origin)", "new": "                    rd.to_wire(file, {}, origin)"},
    {"id": "c03-question-class-type-swapped", "rule": "R-03.1", "file": "dns/renderer.py", "expect": "fires",
     "old": "self.output.write(struct.pack(\"!HH\", rdtype, rdclass))", "new": "self.output.write(struct.pack(\"!HH\", rdclass, rdtype))"},
    {"id": "c03-reader-appends-directly", "rule": "R-03.4", "file": "dns/message.py", "expect": "fires",
     "old": "            self.message.find_rrset(\n                section, qname, rdclass, rdtype, create=True, force_unique=True\n            )", "new": "            section.append(dns.rrset.RRset(qname, rdclass, rdtype))"},
    {"id": "c03-update-hook-ctor-state", "rule": "R-03.4", "file": "dns/update.py", "expect": "fires",
     "old": "                rdclass = self.zone[0].rdclass", "new": "                rdclass = self.zone_rdclass"},
    {"id": "c03-twin-count-var", "rule": "R-03.2", "file": "dns/renderer.py", "expect": "silent",
     "old": "            n = rdataset.to_wire(name, self.output, self.compress, self.origin, **kw)\n        self.counts[section] += n", "new": "            n = rdataset.to_wire(name, self.output, self.compress, self.origin, **kw)\n        # count the RRs just written\n        self.counts[section] += n"},
]
