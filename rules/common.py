"""Rules used by several property modules."""
from __future__ import annotations

import ast

from engine.model import src
from engine.util import where, optional_numeric_params, optional_numeric_attrs, truthiness_uses


def presence_by_identity(model, rep, rule, module_prefixes, extra_names, what, consequence, floor, label):
    """Optional numbers (parameters/attributes annotated `int | None` / `float | None`, plus the named ones) are tested for presence with
    `is None` / `is not None`, never through their truth value (`if x`, `not x`, `x or default`): 0 is a legitimate value."""
    n_opt = 0
    for f in sorted(model.all_functions(), key=lambda g: g.qualname):
        if not f.module.name.startswith(tuple(module_prefixes)):
            continue
        names = optional_numeric_params(f) | {p_ for p_ in f.params() if p_ in extra_names}
        if f.cls is not None:
            for c in f.cls.mro:
                if hasattr(c, "node"):
                    names |= optional_numeric_attrs(c)
        if not names:
            continue
        n_opt += len(names)
        for (n_, nm, how) in truthiness_uses(f.node, names):
            rep.bad(rule, f.qualname, where(f, n_), f"`{nm}` is {what} and 0 is a legitimate value, but it is {how}: 0 is taken for 'absent' ({consequence})", stmt=f"presence {nm}")
    rep.floor(rule + "-optional", n_opt, floor)
    rep.ok(rule, label, "-", f"{n_opt} optional numeric parameters/attributes are only ever tested with `is None` / `is not None`", stmt="presence-tests")


def forwarded(model, rep, rule, f, param, callee_filter, why, floor_counter=None):
    """Inside function f (which has parameter `param`), every call whose callee passes `callee_filter(call, callee_funcinfo_or_None)` and whose resolved
    callee has a parameter `param` must be given it (positionally or by keyword)."""
    n = 0
    for c in ast.walk(f.node):
        if not isinstance(c, ast.Call):
            continue
        tq = model.resolve_expr(f, c.func)
        callee = model.functions.get(tq)
        if callee is None or param not in callee.params() or not callee_filter(c, callee):
            continue
        n += 1
        params = [p_ for p_ in callee.params() if p_ not in ("self", "cls")]
        idx = params.index(param)
        passed = (len(c.args) > idx and not any(isinstance(a, ast.Starred) for a in c.args)) or any(k.arg == param for k in c.keywords) or any(k.arg is None for k in c.keywords)
        rep.check(passed, rule, f.qualname, where(f, c), f"`{src(c.func)}` receives `{param}`",
                  f"`{src(c)[:70]}` omits `{param}` although {callee.qualname} takes it and {f.qualname} was given one: {why}", stmt=f"forward {param} -> {src(c.func)}")
    return n


def token_loops_end_at_eof(model, rep, rule):
    """A `while True` loop that pulls tokens and leaves on a token-kind test must also leave at end of input
    (Tokenizer.get() returns EOF tokens for ever): it exits on is_eof / is_eol_or_eof, on a negative kind test, or raises."""
    import re
    from engine.cfg import normalise_compare, atoms
    from engine.model import walk_no_nested
    # token loops: a loop that ends on a token-kind test must also end at end of input (Tokenizer.get() returns EOF tokens for ever)
    n_tok = 0
    for f in sorted(model.all_functions(), key=lambda g: g.qualname):
        if f.module.name not in ("dns.zonefile", "dns.tokenizer", "dns.message") and not f.module.name.startswith("dns.rdtypes") and f.module.name != "dns.rdata":
            continue
        for lp in [n for n in walk_no_nested(f.node) if isinstance(n, ast.While)]:
            gets = [c for c in ast.walk(lp) if isinstance(c, ast.Call) and isinstance(c.func, ast.Attribute) and c.func.attr == "get" and src(c.func.value) in ("self.tok", "tok", "self")
                    and not c.args]
            if not gets or not (isinstance(lp.test, ast.Constant) and lp.test.value in (1, True)):
                continue
            exits = [n for n in ast.walk(lp) if isinstance(n, ast.If) and any(isinstance(b, (ast.Break, ast.Return)) for b in n.body)]
            kinds, negative = set(), False
            for n in exits:
                for a in atoms(normalise_compare(n.test)):
                    m_ = re.search(r"\.(is_\w+)\(\)$", a[0])
                    if m_ and a[1] == "truthy":
                        kinds.add(m_.group(1))
                    elif m_ and a[1] == "falsy":
                        negative = True  # leaves as soon as the token is NOT of some kind: an EOF token is of no other kind
            raises = any(isinstance(n, ast.Raise) for n in ast.walk(lp))
            if not kinds and not negative:
                continue
            n_tok += 1
            okk = negative or bool(kinds & {"is_eof", "is_eol_or_eof"}) or raises
            rep.check(okk, rule, f.qualname, where(f, lp), f"token loop ends on {sorted(kinds)}" + (" or raises" if raises else ""),
                      f"the token loop ends only on {sorted(kinds)}: at end of input get() keeps returning EOF tokens, so a last line without a newline makes the reader spin for ever", stmt="token-loop-eof")
    rep.floor(rule + "-token-loops", n_tok, 1)


def mixed_presence_tests(model, rep, rule, module_names, what, consequence, floor):
    """Contradiction rule (Engler): inside one function a local/parameter that is tested for presence by identity (`x is None` / `x is not None`) at one
    place and through its truth value at another.  One of the two is wrong whenever the value's type has a falsy non-None member (the empty Name, an
    empty Rdataset, 0): the identity test shows None is the 'absent' marker, so the truth-value test takes the falsy member for 'absent' as well."""
    from engine.cfg import normalise_compare, atoms
    n_ident = 0
    for f in sorted(model.all_functions(), key=lambda g: g.qualname):
        if f.module.name not in module_names:
            continue
        ident = set()
        for n in ast.walk(f.node):
            if isinstance(n, ast.Compare) and len(n.ops) == 1 and isinstance(n.ops[0], (ast.Is, ast.IsNot)) \
                    and isinstance(n.comparators[0], ast.Constant) and n.comparators[0].value is None and isinstance(n.left, ast.Name):
                ident.add(n.left.id)
        if not ident:
            continue
        n_ident += len(ident)
        for (n_, nm, how) in truthiness_uses(f.node, ident):
            rep.bad(rule, f.qualname, where(f, n_), f"`{nm}` is {what}: it is compared with None elsewhere in this function but here it is {how}, "
                    f"so a present-but-falsy value is taken for 'absent' ({consequence})", stmt=f"mixed-presence {nm}")
    rep.floor(rule + "-identity-tested", n_ident, floor)
    rep.ok(rule, "+".join(sorted(module_names)), "-", f"{n_ident} variables tested by identity with None are never also tested through their truth value", stmt="mixed-presence-tests")


def optional_results_by_identity(model, rep, rule, module_names, what, consequence, floor):
    """A helper of the module that returns None for 'nothing given' on one path and an object on another: callers that bind its result to a local must
    test that local by identity with None, never through its truth value (the object may be an empty, hence falsy, container)."""
    optional = {}
    for f in model.all_functions():
        if f.module.name not in module_names:
            continue
        rets = [n for n in ast.walk(f.node) if isinstance(n, ast.Return)]
        none_ret = [r for r in rets if r.value is not None and isinstance(r.value, ast.Constant) and r.value.value is None]
        val_ret = [r for r in rets if r.value is not None and not (isinstance(r.value, ast.Constant) and r.value.value is None)]
        if none_ret and val_ret:
            optional[f.name] = f
    n_sites = 0
    for f in sorted(model.all_functions(), key=lambda g: g.qualname):
        if f.module.name not in module_names:
            continue
        names = {}
        for n in ast.walk(f.node):
            if isinstance(n, ast.Assign) and len(n.targets) == 1 and isinstance(n.targets[0], ast.Name) and isinstance(n.value, ast.Call):
                fn = n.value.func
                callee = fn.attr if isinstance(fn, ast.Attribute) else (fn.id if isinstance(fn, ast.Name) else None)
                if callee in optional:
                    names[n.targets[0].id] = callee
        if not names:
            continue
        n_sites += len(names)
        for (n_, nm, how) in truthiness_uses(f.node, set(names)):
            rep.bad(rule, f.qualname, where(f, n_), f"`{nm}` holds the result of {names[nm]}(), which is None when {what} and an object otherwise, but it is {how}: "
                    f"an empty (falsy) object is taken for 'not given' ({consequence})", stmt=f"optional-result {names[nm]}")
    rep.floor(rule + "-optional-results", n_sites, floor)
    rep.ok(rule, "+".join(sorted(module_names)), "-", f"{n_sites} locals holding an optional helper result ({sorted(optional)}) are tested by identity only", stmt="optional-results")


def key_triple_forwarded(model, rep, rule, module_names, floor):
    """Rdatasets are addressed by (rdclass, rdtype, covers).  A call that hands `<x>.rdtype` (or its own `rdtype` parameter) to a callee that also takes
    `covers` must hand over `<x>.covers` (its own `covers`) as well: otherwise the callee's default NONE addresses a different rdataset for RRSIG/SIG."""
    # method name -> ordered parameter names (without self/cls), only when every package function of that name agrees on the position of rdtype and covers
    table = {}
    for f in model.all_functions():
        ps = [p_ for p_ in f.params() if p_ not in ("self", "cls")]
        if "rdtype" in ps and "covers" in ps:
            table.setdefault(f.name, set()).add((ps.index("rdtype"), ps.index("covers")))
    table = {k: next(iter(v)) for k, v in table.items() if len(v) == 1}
    n = 0
    for f in sorted(model.all_functions(), key=lambda g: g.qualname):
        if f.module.name not in module_names:
            continue
        own = set(f.params())
        for c in ast.walk(f.node):
            if not isinstance(c, ast.Call) or any(isinstance(a, ast.Starred) for a in c.args) or any(k.arg is None for k in c.keywords):
                continue
            name = c.func.attr if isinstance(c.func, ast.Attribute) else (c.func.id if isinstance(c.func, ast.Name) else None)
            if name not in table:
                continue
            (i_t, i_c) = table[name]
            a_t = c.args[i_t] if len(c.args) > i_t else next((k.value for k in c.keywords if k.arg == "rdtype"), None)
            a_c = c.args[i_c] if len(c.args) > i_c else next((k.value for k in c.keywords if k.arg == "covers"), None)
            if a_t is None:
                continue
            want = None
            if isinstance(a_t, ast.Attribute) and a_t.attr == "rdtype":
                want = src(a_t.value) + ".covers"
            elif isinstance(a_t, ast.Name) and a_t.id == "rdtype" and "covers" in own:
                want = "covers"
            if want is None:
                continue
            n += 1
            rep.check(a_c is not None and src(a_c) == want, rule, f.qualname, where(f, c), f"`{src(c.func)}` receives `{want}` with `{src(a_t)}`",
                      f"`{src(c)[:80]}` passes `{src(a_t)}` but " + (f"`{src(a_c)}`" if a_c is not None else "nothing") + f" for covers (expected `{want}`): "
                      "for RRSIG/SIG rdatasets the callee then addresses the rdataset with covers NONE, i.e. a different one (stale duplicates, lost deletes)", stmt=f"triple {name} <- {want}")
    rep.floor(rule + "-triples", n, floor)


def name_slot_agreement(model, rep, rule, scope, floor, consequence):
    """A bare local name passed POSITIONALLY where the callee has a parameter of that very name at ANOTHER position is in the wrong slot.

    `scope(caller FuncInfo, callee name, candidate callee FuncInfos) -> filtered candidates or None` selects the call sites of one protocol family (wire codecs, the
    transport functions); a site is judged only when all candidates agree on the parameter name at the argument's position (else it is ambiguous and skipped).
    Receivers that are constructor calls are resolved to their class first."""
    import collections
    byname = collections.defaultdict(list)
    for g in model.all_functions():
        byname[g.node.name].append(g)

    def pos_params(g):
        a = g.node.args
        ps = [x.arg for x in a.posonlyargs + a.args]
        return ps[1:] if ps and ps[0] in ("self", "cls") else ps

    n = 0
    for f in sorted(model.all_functions(), key=lambda g: g.qualname):
        for c in ast.walk(f.node):
            if not isinstance(c, ast.Call) or any(isinstance(a, ast.Starred) for a in c.args) or not c.args:
                continue
            nm = c.func.attr if isinstance(c.func, ast.Attribute) else (c.func.id if isinstance(c.func, ast.Name) else None)
            if nm is None or nm not in byname:
                continue
            cands = byname[nm]
            if isinstance(c.func, ast.Attribute) and isinstance(c.func.value, ast.Call):
                try:
                    tgt = model.resolve_expr(f, c.func.value.func)
                except Exception:
                    tgt = None
                if tgt in model.classes:
                    mm = model.lookup_method(model.classes[tgt], nm)
                    if mm is not None:
                        cands = [mm]
            cands = scope(f, nm, [g for g in cands if len(pos_params(g)) >= len(c.args)])
            if not cands:
                continue
            allp = set().union(*[set(pos_params(g)) for g in cands])
            for i, a in enumerate(c.args):
                if not isinstance(a, ast.Name) or a.id not in allp:
                    continue
                at = {pos_params(g)[i] for g in cands}
                if len(at) != 1:
                    continue
                n += 1
                slot = next(iter(at))
                rep.check(a.id == slot, rule, f.qualname, where(f, c), f"`{a.id}` is passed as `{slot}` of {nm}()",
                          f"`{src(c)[:80]}` passes `{a.id}` in the position of the parameter `{slot}` although {nm}() has a parameter `{a.id}` elsewhere: {consequence}", stmt=f"slot {nm}.{slot} <- {a.id}")
    rep.floor(rule + "-slots", n, floor)
