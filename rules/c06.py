"""C06 name order / equality / hash: operator table, one normaliser, mirrored branches, relativity guards."""
from __future__ import annotations

import ast

from engine.cfg import CFG, normalise_compare, atoms, A
from engine.model import src, stmt_key, AnalysisError
from engine import pat
from engine.util import where

RULES = {
    "R-06.12": "names that compare equal have ONE canonical form: Name.to_wire(canonicalize=True) folds every label it emits, the origin's labels of a relative name included (the rule function of C15 R-15.5, run here directly because C15 adopts C06 rules)",
    "R-06.11": "fullcompare has no shortcut around the label scan: a return that is not preceded by the `while` scan (not dominated by its test) is a mixed-relativity return - relation NONE and 0 common labels; every other result (SUBDOMAIN, SUPERDOMAIN, EQUAL, COMMONANCESTOR, and the number of labels in common that dns.btreezone's bounds() reads) is produced after the scan counted the common labels",
    "R-06.10": "NameDict.get_deepest_match agrees with is_superdomain only if max_depth covers every key: the private store is filled through __setitem__ alone (which maintains max_depth) - __init__ starts from an empty dict and routes initial contents through update()",
    "R-06.9": "inside dns/name.py a Name is never compared by identity (`is` / `is not`) with the module's Name constants root / empty: equal names are distinct objects (Name([]), a relativized origin, an unpickled copy), so identity makes equal names behave differently",
    "R-06.8": "the predecessor padding never builds a label above 63 octets: _pad_to_max_name appends 63-octet labels while more than 64 octets are left (each costs 64 on the wire) and a last label of needed-1 <= 63 octets; _pad_to_max_label extends a label by at most 63 - len(label)",
    "R-06.1": "each rich comparison of Name returns fullcompare(other)[1] <op> 0 with the operator its name says; foreign operands give NotImplemented / False / True",
    "R-06.2": "fullcompare folds BOTH labels with the same normaliser, __hash__ folds every octet with it, canonicalize() uses it",
    "R-06.3": "fullcompare: mirrored </> arms, relative-before-absolute, right-to-left scan, length tie-break, relation from the length difference; is_subdomain/is_superdomain accept exactly {SUB|SUPER}DOMAIN and EQUAL",
    "R-06.5": "RFC 4471 octet stepping is monotone under the canonical fold: constant propagation of the octet variable through the increment fragment of _absolute_successor (resp. the decrement of _absolute_predecessor), for each of the 256 octet values, yields a value that folds strictly higher (lower); fold = ASCII lower-casing of RFC 4034 6.1; the fragment is interpreted by the checker (int + - == < and if), the repository code is not run",
    "R-06.6": "no `x[:-n]` / `x[-n:]` slice of a name is taken with an n that may be 0 (relativizing to the empty origin, splitting at depth 0): C20 R-20.4's negative-zero-slice rule applied to dns/name.py",
    "R-06.7": "inside dns/name.py names are compared with the Name operators (case-insensitive), never through their `.labels` tuples (case-sensitive): e.g. the apex test of the RFC 4471 functions",
    "R-06.4": "relativize strips exactly len(origin) labels and only under is_subdomain(origin); derelativize appends only to relative names; choose_relativity dispatches on origin/relativize",
}
OPS = {"__eq__": "==", "__ne__": "!=", "__lt__": "<", "__le__": "<=", "__ge__": ">=", "__gt__": ">"}
FLIP = {"<": ">", "<=": ">=", ">": "<", ">=": "<=", "==": "==", "!=": "!="}
FOREIGN = {"__eq__": "False", "__ne__": "True", "__lt__": "NotImplemented", "__le__": "NotImplemented", "__ge__": "NotImplemented", "__gt__": "NotImplemented"}


def check_operator_table(model, rep, rule, cls_q, subject_ok, same_type_test, names=None):
    """Shared with C07 (Rdata).  subject_ok(expr_src) says whether the compared expression is the
    class's three-way comparison; same_type_test(test_ast) -> 't'|'f'|None tells which edge of an
    `if` means 'other has the same type'."""
    ci = model.cls(cls_q)
    n = 0
    for name, op in OPS.items():
        if names is not None and name not in names:
            continue
        f = ci.methods.get(name)
        if f is None:
            rep.bad(rule, f"{cls_q}.{name}", ci.file, f"{name} is not defined: Python falls back to identity / reflected comparison", stmt="defined")
            continue
        cfg = CFG(f.node, implicit_exc=False)
        rets = [x for x in cfg.nodes if isinstance(x.ast, ast.Return) and x.kind == "stmt"]
        cmp_rets, const_rets, other = [], [], []
        for r in rets:
            v = r.ast.value
            if isinstance(v, ast.Compare) and len(v.ops) == 1:
                cmp_rets.append(r)
            elif isinstance(v, (ast.Constant, ast.Name)) and src(v) in ("True", "False", "NotImplemented"):
                const_rets.append(r)
            else:
                other.append(r)
        con = f"{cls_q}.{name}"
        if name in ("__eq__", "__ne__") and not cmp_rets:
            # Rdata.__eq__/__ne__ have their own structure (checked in C07); nothing to do here
            continue
        if len(cmp_rets) != 1 or other:
            rep.blind(rule, con, where(f, f.node), f"unrecognised shape: {len(cmp_rets)} comparison returns, {len(other)} other returns", stmt="table")
            continue
        n += 1
        at = atoms(normalise_compare(cmp_rets[0].ast.value))[0]
        lhs, got, rhs = at
        if lhs == "0":
            lhs, rhs, got = rhs, lhs, FLIP.get(got, got)
        if rhs != "0" or not subject_ok(lhs):
            calls = {src(c.func) for c in ast.walk(f.node) if isinstance(c, ast.Call)}
            if not any(x.endswith(("fullcompare", "_cmp")) for x in calls):
                # the operator is not derived from the shared three-way comparison at all: coherence with the other operators is lost by construction
                rep.bad(rule, con, where(f, cmp_rets[0].ast), f"{name} returns `{src(cmp_rets[0].ast.value)[:70]}`, which is not derived from the shared three-way comparison: "
                        "it can disagree with the ordering operators and with __hash__ (e.g. label boundaries or case folding handled differently)", stmt="table")
            elif subject_ok(lhs) or subject_ok(rhs):
                # derived from the three-way result, but not through its SIGN: the result is any integer (e.g. a label-count difference), only `op 0` is meaningful
                rep.bad(rule, con, where(f, cmp_rets[0].ast), f"{name} returns `{src(cmp_rets[0].ast.value)[:70]}`: the three-way result is compared with something other than 0 "
                        f"(`{got} {rhs}`), but only its sign is defined - for an ancestor/descendant pair it is the label-count difference, so the operator disagrees with the others", stmt="table")
            else:
                rep.blind(rule, con, where(f, cmp_rets[0].ast), f"comparison `{src(cmp_rets[0].ast.value)}` is not `<three-way result> op 0`", stmt="table")
            continue
        rep.check(got == op, rule, con, where(f, cmp_rets[0].ast), f"returns `{lhs} {got} 0`", f"{name} returns `{lhs} {got} 0` but must use `{op}`", stmt="table")
        for r in const_rets:
            want = FOREIGN[name]
            # constant returns must sit on the foreign-type side
            rep.check(src(r.ast.value) == want, rule, con, where(f, r.ast), f"foreign operand -> {want}", f"foreign operand returns {src(r.ast.value)}, expected {want}", stmt="foreign")
        # the comparison return must be on the same-type side of the type test
        tests = [t for t in cfg.nodes if t.kind == "test"]
        edges = set()
        for t in tests:
            side = same_type_test(t.ast.test)
            if side:
                edges.add((t.id, side))
        rep.check(bool(edges) and cfg.edge_dominated(cmp_rets[0].id, edges), rule, con, where(f, cmp_rets[0].ast), "comparison guarded by the operand-type test",
                  "comparison is not guarded by the operand-type test", stmt="type-guard")
    return n


def run(model, rep, tier):
    name_cls = model.cls("dns.name.Name")

    def name_same_type(test):
        a = atoms(normalise_compare(test))
        if a == [("isinstance(other, Name)", "truthy", "")]:
            return "t"
        if a == [("isinstance(other, Name)", "falsy", "")]:
            return "f"
        return None

    n = check_operator_table(model, rep, "R-06.1", "dns.name.Name", lambda s: s == "self.fullcompare(other)[1]", name_same_type)
    rep.floor("R-06.1", n, 6)

    # ---------------------------------------------------------------- R-06.2
    fc = model.func("dns.name.Name.fullcompare")
    # locals are named by role (shape of their definition / use), so the rules below do not depend on how the code spells them
    fcn, _ = pat.canon(fc.node, [
        "__sabs = self.is_absolute()", "__oabs = other.is_absolute()", "__l1 = len(self.labels)", "__l2 = len(other.labels)", "__ldiff = __l1 - __l2",
        "if __ldiff < 0:\n    __l = __l1\nelse:\n    __l = __l2", "__order = 0\n__nlabels = 0\n__namereln = NameRelation.NONE",
        "while __l > 0:\n    ...\n    if __label1 < __label2:\n        ...\n    elif __label1 > __label2:\n        ...\n    ..."])
    defs = {}
    for nd in ast.walk(fcn):
        if isinstance(nd, ast.Assign) and isinstance(nd.targets[0], ast.Name) and nd.targets[0].id in ("label1", "label2"):
            defs.setdefault(nd.targets[0].id, []).append(nd.value)
    if set(defs) != {"label1", "label2"} or any(len(v) != 1 for v in defs.values()):
        raise AnalysisError("fullcompare: label1/label2 definitions not found (shape changed)")

    def split(v):
        if isinstance(v, ast.Call) and isinstance(v.func, ast.Attribute) and not v.args and not v.keywords:
            return v.func.attr, src(v.func.value)
        return None, src(v)

    n1, b1 = split(defs["label1"][0])
    n2, b2 = split(defs["label2"][0])
    rep.check(n1 is not None and n1 == n2, "R-06.2", fc.qualname, where(fc, defs["label1"][0]), f"both operands folded with .{n1}()",
              f"operands are normalised differently: label1 via {n1}, label2 via {n2} – order/equality are no longer case-insensitive on both sides", stmt="same-normaliser")
    rep.check(b1 == "self.labels[l1]" and b2 == "other.labels[l2]", "R-06.2", fc.qualname, where(fc, defs["label1"][0]), "label1 from self, label2 from other, own indices",
              f"labels taken from {b1} / {b2}", stmt="operands")
    norm = n1
    rep.check(norm == "lower", "R-06.2", fc.qualname, where(fc, defs["label1"][0]), "the fold is to lower case, the RFC 4034 section 6.1 canonical form",
              f"labels are folded with .{norm}(): the order is total but not the canonical order (octets 0x5b-0x60 sort on the other side of the letters)", stmt="fold-is-lower")
    h = model.func("dns.name.Name.__hash__")
    fors = [x for x in ast.walk(h.node) if isinstance(x, ast.For)]
    okk = len(fors) == 2 and src(fors[0].iter) == "self.labels" and src(fors[1].iter) == f"{src(fors[0].target)}.{norm}()"
    rep.check(okk, "R-06.2", h.qualname, where(h, h.node), f"hash folds every octet of every label through .{norm}()",
              f"__hash__ does not iterate `label.{norm}()` for every label: equal names (case-insensitively) can hash differently", stmt="hash-normaliser")
    if okk:
        acc = [x for x in ast.walk(fors[1]) if isinstance(x, (ast.AugAssign, ast.Assign))]
        accs = {src(a.target) if isinstance(a, ast.AugAssign) else src(a.targets[0]) for a in acc}
        uses_only_c = len(accs) == 1 and all(set(n.id for n in ast.walk(a.value) if isinstance(n, ast.Name)) <= accs | {src(fors[1].target)} for a in acc)
        rep.check(uses_only_c and bool(acc), "R-06.2", h.qualname, where(h, h.node), "the accumulator depends only on the folded octets", "hash mixes in something other than the folded octets", stmt="hash-inputs")
    cz = model.func("dns.name.Name.canonicalize")
    rep.check(pat.has_expr(cz.node, f"Name([__x.{norm}() for __x in self.labels])") if (norm or "").isidentifier() else False, "R-06.2", cz.qualname, where(cz, cz.node), f"canonicalize() uses .{norm}()", "canonicalize() uses a different normaliser than comparison", stmt="canon-normaliser")
    tw = model.func("dns.name.Name.to_wire")
    rep.check(f".{norm}()" in src(tw.node) and "canonicalize" in src(tw.node), "R-06.2", tw.qualname, where(tw, tw.node), f"to_wire(canonicalize=True) folds with .{norm}()",
              "to_wire's canonical form does not use the comparison normaliser", stmt="wire-normaliser")
    td = model.func("dns.name.Name.to_digestable")
    rep.check("canonicalize=True" in src(td.node) or "True" in [src(a) for c in ast.walk(td.node) if isinstance(c, ast.Call) for a in c.args], "R-06.2", td.qualname, where(td, td.node),
              "to_digestable asks for the canonical (folded) wire form", "to_digestable no longer asks for the canonical form", stmt="digestable")

    # ---------------------------------------------------------------- R-06.3
    cfg = CFG(fcn, implicit_exc=False)
    # relative/absolute arm
    okk = False
    for nd in ast.walk(fcn):
        if isinstance(nd, ast.If) and atoms(normalise_compare(nd.test)) == [A("sabs", "!=", "oabs")]:
            inner = [x for x in nd.body if isinstance(x, ast.If)]
            if inner and src(inner[0].test) == "sabs":
                t_ret = [src(s.value) for s in inner[0].body if isinstance(s, ast.Return)]
                f_ret = [src(s.value) for s in inner[0].orelse if isinstance(s, ast.Return)]
                okk = t_ret == ["(NameRelation.NONE, 1, 0)"] and f_ret == ["(NameRelation.NONE, -1, 0)"]
    sd = [src(n.value) for n in ast.walk(fcn) if isinstance(n, ast.Assign) and src(n.targets[0]) == "sabs"]
    od = [src(n.value) for n in ast.walk(fcn) if isinstance(n, ast.Assign) and src(n.targets[0]) == "oabs"]
    rep.check(okk and sd == ["self.is_absolute()"] and od == ["other.is_absolute()"], "R-06.3", fc.qualname, where(fc, fc.node),
              "mixed relativity: (NONE, +1, 0) when self is absolute else (NONE, -1, 0)", "relative names no longer sort before absolute names (sign or operands of the relativity arm changed)", stmt="relativity-arm")
    # mirrored arms
    arms = []
    for nd in ast.walk(fcn):
        if isinstance(nd, ast.If) and isinstance(nd.test, ast.Compare) and {src(nd.test.left), src(nd.test.comparators[0])} == {"label1", "label2"}:
            arms.append(nd)
    found = {}
    for nd in arms:
        lhs, op, rhs = atoms(normalise_compare(nd.test))[0]
        if lhs == "label2":
            lhs, rhs, op = rhs, lhs, FLIP.get(op, op)
        orders = [src(s.value) for s in nd.body if isinstance(s, ast.Assign) and src(s.targets[0]) == "order"]
        rets = [src(s.value) for s in nd.body if isinstance(s, ast.Return)]
        anc = any(isinstance(s, ast.If) and " ".join(src(s.test).split()) == "nlabels > 0" and any("NameRelation.COMMONANCESTOR" in src(x) for x in s.body) for s in nd.body)
        found[op] = (orders, rets, anc, nd)
    if set(found) != {"<", ">"}:
        rep.blind("R-06.3", fc.qualname, where(fc, fc.node), f"label comparison arms found for {sorted(found)}; expected exactly one `<` arm and one `>` arm", stmt="mirrored-arms")
    else:
        for op, want in (("<", "-1"), (">", "1")):
            orders, rets, anc, nd = found[op]
            rep.check(orders == [want] and rets == ["(namereln, order, nlabels)"] and anc, "R-06.3", fc.qualname, where(fc, nd),
                      f"`label1 {op} label2` -> order {want}, COMMONANCESTOR iff nlabels > 0", f"`label1 {op} label2` arm gives order {orders}, returns {rets}, common-ancestor handling {anc}",
                      stmt=f"arm {op}")
    # scan direction and bookkeeping
    loop = [n for n in ast.walk(fcn) if isinstance(n, ast.While)]
    body = [stmt_key(s) for s in loop[0].body] if loop else []
    rep.check(bool(loop) and " ".join(src(loop[0].test).split()) == "l > 0" and "l -= 1" in body and "l1 -= 1" in body and "l2 -= 1" in body and "nlabels += 1" in body,
              "R-06.3", fc.qualname, where(fc, fc.node), "labels are compared right-to-left (both indices decrease), one common label counted per iteration",
              "scan direction / common-label counting changed", stmt="scan")
    inits = {src(n.targets[0]): src(n.value) for n in fcn.body if isinstance(n, ast.Assign)}
    rep.check(inits.get("l1") == "len(self.labels)" and inits.get("l2") == "len(other.labels)" and inits.get("ldiff") == "l1 - l2", "R-06.3", fc.qualname, where(fc, fc.node),
              "ldiff = len(self) - len(other)", f"length difference computed as {inits.get('ldiff')} from {inits.get('l1')}/{inits.get('l2')}", stmt="ldiff")
    lsel = [n for n in fcn.body if isinstance(n, ast.If) and " ".join(src(n.test).split()) == "ldiff < 0"]
    okk = bool(lsel) and [stmt_key(s) for s in lsel[0].body] == ["l = l1"] and [stmt_key(s) for s in lsel[0].orelse] == ["l = l2"]
    rep.check(okk, "R-06.3", fc.qualname, where(fc, fc.node), "iterates over min(len) labels", "number of compared labels is no longer the shorter length", stmt="min-len")
    tail = [n for n in fcn.body if isinstance(n, ast.If) and " ".join(src(n.test).split()) == "ldiff < 0" and n is not (lsel[0] if lsel else None)]
    okk = False
    if tail:
        t = tail[0]
        a = [stmt_key(s) for s in t.body]
        el = t.orelse[0] if t.orelse and isinstance(t.orelse[0], ast.If) else None
        okk = a == ["namereln = NameRelation.SUPERDOMAIN"] and el is not None and " ".join(src(el.test).split()) == "ldiff > 0" and \
            [stmt_key(s) for s in el.body] == ["namereln = NameRelation.SUBDOMAIN"] and [stmt_key(s) for s in el.orelse] == ["namereln = NameRelation.EQUAL"]
    rep.check(okk, "R-06.3", fc.qualname, where(fc, fc.node), "shorter = SUPERDOMAIN, longer = SUBDOMAIN, same length = EQUAL", "relation derived from the length difference changed", stmt="relation")
    # ---------------------------------------------------------------- R-06.11
    wh_nodes = [n.id for n in cfg.nodes if isinstance(n.ast, ast.While)]
    rets11 = [n for n in cfg.nodes if isinstance(n.ast, ast.Return)]
    if len(wh_nodes) != 1:
        rep.blind("R-06.11", fc.qualname, where(fc, fc.node), f"{len(wh_nodes)} while loops in fullcompare (expected the one label scan)", stmt="scan-loop")
    else:
        n_pre = 0
        for rn in rets11:
            if cfg.dominated_by_set(rn.id, wh_nodes):
                continue
            n_pre += 1
            v = rn.ast.value
            okk = isinstance(v, ast.Tuple) and len(v.elts) == 3 and src(v.elts[0]) == "NameRelation.NONE" and isinstance(v.elts[2], ast.Constant) and v.elts[2].value == 0
            rep.check(okk, "R-06.11", fc.qualname, where(fc, rn.ast), "a return before the scan is a mixed-relativity result (NONE, 0 labels in common)",
                      f"`return {src(v)[:60]}` leaves before the label scan: the number of common labels was not counted (it is still its initial value), so callers that read it - dns.btreezone's bounds() takes the closest encloser from it - get 0",
                      stmt="pre-scan-return")
        rep.floor("R-06.11", n_pre, 2)
    tb = [stmt_key(n) for n in fcn.body if isinstance(n, ast.Assign) and src(n.targets[0]) == "order"]
    rep.check("order = ldiff" in tb, "R-06.3", fc.qualname, where(fc, fc.node), "tie-break: order = length difference", "length tie-break no longer has the sign of len(self) - len(other)", stmt="tie-break")
    for qn, rel in (("dns.name.Name.is_subdomain", "SUBDOMAIN"), ("dns.name.Name.is_superdomain", "SUPERDOMAIN")):
        f = model.func(qn)
        tests = [n for n in ast.walk(f.node) if isinstance(n, ast.If)]
        okk = len(tests) == 1 and normalise_compare(tests[0].test)[0] == "or" and pat.has(f.node, "(__nr, __any1, __any2) = self.fullcompare(other)", (epr := pat.Env())) and set(atoms(normalise_compare(tests[0].test))) == {(epr["__nr"], "==", f"NameRelation.{rel}"), (epr["__nr"], "==", "NameRelation.EQUAL")} \
            and [src(s.value) for s in tests[0].body if isinstance(s, ast.Return)] == ["True"] \
            and [src(s.value) for s in f.node.body if isinstance(s, ast.Return)] == ["False"]
        rep.check(okk, "R-06.3", qn, where(f, f.node), f"accepts exactly {{{rel}, EQUAL}} of self.fullcompare(other)", f"does not accept exactly {{{rel}, EQUAL}}", stmt="predicate")

    # ---------------------------------------------------------------- R-06.4
    rl = model.func("dns.name.Name.relativize")
    t = " ".join(src(rl.node).split())
    rep.check(pat.has(rl.node, "if self.is_subdomain(origin):\n    return Name(self.labels[:len(self.labels) - len(origin)])\nelse:\n    return self"), "R-06.4", rl.qualname, where(rl, rl.node),
              "strips exactly len(origin) labels, only when self is a subdomain of origin", "relativize no longer strips exactly len(origin) labels under is_subdomain(origin)", stmt="relativize")
    dr = model.func("dns.name.Name.derelativize")
    t = " ".join(src(dr.node).split())
    rep.check(pat.ends_with(dr.node, "if not self.is_absolute():\n    return self.concatenate(origin)\nelse:\n    return self"), "R-06.4", dr.qualname, where(dr, dr.node),
              "appends the origin only to relative names", "derelativize no longer appends only to relative names", stmt="derelativize")
    cr = model.func("dns.name.Name.choose_relativity")
    t = " ".join(src(cr.node).split())
    rep.check(pat.ends_with(cr.node, "if origin:\n    if relativize:\n        return self.relativize(origin)\n    else:\n        return self.derelativize(origin)\nelse:\n    return self"), "R-06.4", cr.qualname, where(cr, cr.node),
              "choose_relativity dispatches on origin, then relativize", "choose_relativity dispatch changed", stmt="choose")
    cc = model.func("dns.name.Name.concatenate")
    t = " ".join(src(cc.node).split())
    ecc = pat.Env()
    rep.check(pat.has(cc.node, "if self.is_absolute() and len(other) > 0:\n    raise AbsoluteConcatenation") and pat.has(cc.node, "__labels = list(self.labels)\n__labels.extend(list(other.labels))\nreturn Name(__labels)", ecc), "R-06.4", cc.qualname, where(cc, cc.node),
              "concatenate refuses to extend an absolute name and appends other's labels", "concatenate guard/append changed", stmt="concatenate")
    pa = model.func("dns.name.Name.parent")
    rep.check("return Name(self.labels[1:])" in src(pa.node) and "raise NoParent" in src(pa.node), "R-06.4", pa.qualname, where(pa, pa.node), "parent drops the leftmost label; root/empty have none",
              "parent() changed", stmt="parent")
    gi = model.func("dns.name.Name.__getitem__")
    rep.check("return self.labels[index]" in src(gi.node), "R-06.4", gi.qualname, where(gi, gi.node), "slicing a name slices its labels", "Name.__getitem__ no longer indexes labels", stmt="getitem")
    # ---------------------------------------------------------------- R-06.7
    n_lab = 0
    for f7 in model.functions_in("dns.name"):
        for c in ast.walk(f7.node):
            if isinstance(c, ast.Compare) and len(c.ops) == 1 and isinstance(c.ops[0], (ast.Eq, ast.NotEq, ast.In, ast.NotIn)):
                sides = [c.left, c.comparators[0]]
                if all(isinstance(x, ast.Attribute) and x.attr == "labels" for x in sides):
                    n_lab += 1
                    rep.bad("R-06.7", f7.qualname, where(f7, c), f"`{src(c)}` compares label tuples octet for octet: two spellings of the same name (ASCII case) are treated as different names", stmt="labels-compare " + src(c)[:40])
    rep.ok("R-06.7", "dns.name", "dns/name.py", f"no comparison of two `.labels` tuples ({n_lab} found)", stmt="no-labels-compare")
    apex = [model.func("dns.name._absolute_predecessor"), model.func("dns.name._absolute_successor")]
    for f7 in apex:
        rep.check(pat.has_expr(f7.node, "name == origin") or pat.has_expr(f7.node, "name != origin"), "R-06.7", f7.qualname, where(f7, f7.node), "the zone apex is recognised with Name equality",
                  "the apex test `name == origin` / `name != origin` is gone", stmt="apex-test")
    # ---------------------------------------------------------------- R-06.6
    from rules.c20 import check_negative_zero_slices
    n6 = check_negative_zero_slices(model, rep, "R-06.6", only_prefix="dns.name.")
    rep.floor("R-06.6", n6, 2)
    # ---------------------------------------------------------------- R-06.5
    def fold(o):
        return o + 32 if 0x41 <= o <= 0x5A else o
    nmod = model.module("dns.name")

    class _Skip(Exception):
        pass

    class _Unknown(Exception):
        pass

    def _val(e, var, cur):
        if isinstance(e, ast.Name) and e.id == var:
            return cur
        try:
            v = model.const(nmod, e)
        except AnalysisError:
            raise _Unknown(src(e))
        if isinstance(v, (bytes, str)) and len(v) == 1:
            v = ord(v)
        if not isinstance(v, int):
            raise _Unknown(src(e))
        return v

    def _test(t, var, cur):
        if isinstance(t, ast.BoolOp):
            vals = [_test(v, var, cur) for v in t.values]
            return all(vals) if isinstance(t.op, ast.And) else any(vals)
        if isinstance(t, ast.UnaryOp) and isinstance(t.op, ast.Not):
            return not _test(t.operand, var, cur)
        if isinstance(t, ast.Compare):
            left = _val(t.left, var, cur)
            for op, c in zip(t.ops, t.comparators):
                right = _val(c, var, cur)
                ok_ = {ast.Eq: left == right, ast.NotEq: left != right, ast.Lt: left < right, ast.LtE: left <= right, ast.Gt: left > right, ast.GtE: left >= right}.get(type(op))
                if ok_ is None:
                    raise _Unknown(src(t))
                if not ok_:
                    return False
                left = right
            return True
        raise _Unknown(src(t))

    def _run(stmts, var, cur):
        """constant propagation of the octet variable through a straight-line/if fragment (the checker's own semantics of + - == < on ints)"""
        for st in stmts:
            if isinstance(st, ast.If):
                cur = _run(st.body if _test(st.test, var, cur) else st.orelse, var, cur)
            elif isinstance(st, ast.AugAssign) and src(st.target) == var and isinstance(st.op, (ast.Add, ast.Sub)):
                d = _val(st.value, var, cur)
                cur = cur + d if isinstance(st.op, ast.Add) else cur - d
            elif isinstance(st, ast.Assign) and len(st.targets) == 1 and src(st.targets[0]) == var:
                cur = _val(st.value, var, cur)
            elif isinstance(st, ast.Continue):
                raise _Skip()
            elif isinstance(st, (ast.Pass, ast.Expr)) and not any(isinstance(x, ast.Call) for x in ast.walk(st)):
                continue
            else:
                raise _Unknown(src(st)[:40])
        return cur

    for qn, delta, what, domain in (("dns.name._absolute_successor", +1, "increment", range(0, 256)), ("dns.name._absolute_predecessor", -1, "decrement", range(1, 256))):
        f = model.func(qn)
        frag = None
        for blk in _blocks(f.node):
            loads = [i for i, st in enumerate(blk) if isinstance(st, ast.Assign) and len(st.targets) == 1 and isinstance(st.targets[0], ast.Name) and isinstance(st.value, ast.Subscript) and src(st.value.value) == "octets"]
            for i0 in loads:
                var = blk[i0].targets[0].id
                stores = [j for j in range(i0 + 1, len(blk)) if isinstance(blk[j], ast.Assign) and isinstance(blk[j].targets[0], ast.Subscript) and src(blk[j].targets[0].value) == "octets" and src(blk[j].value) == var]
                if stores:
                    frag = (var, blk[i0 + 1:stores[0]], blk[i0])
        if frag is None:
            rep.blind("R-06.5", qn, where(f, f.node), f"the octet {what} fragment (`octet = octets[..]` ... `octets[..] = octet`) was not found", stmt="octet-step")
            continue
        var, stmts, anchor = frag
        bad_o, unknown = [], None
        n_stepped = 0
        for o in domain:
            try:
                r = _run(stmts, var, o)
            except _Skip:
                continue
            except _Unknown as ex:
                unknown = str(ex)
                break
            n_stepped += 1
            if not (0 <= r <= 255) or not (fold(r) > fold(o) if delta > 0 else fold(r) < fold(o)):
                bad_o.append((o, r))
        if unknown is not None:
            rep.blind("R-06.5", qn, where(f, anchor), f"the octet {what} fragment contains `{unknown}`, which the constant propagation over octet values does not interpret", stmt="octet-step")
            continue
        rep.check(not bad_o and n_stepped >= 200, "R-06.5", qn, where(f, anchor), f"for all {n_stepped} octet values that are stepped, the result folds strictly {'higher' if delta > 0 else 'lower'}",
                  f"the octet {what} is not monotone under the canonical (case-folded) order for {[(chr(o), chr(r) if 0 <= r < 256 else r) for o, r in bad_o[:6]]}"
                  f"{' ...' if len(bad_o) > 6 else ''}: the {'successor' if delta > 0 else 'predecessor'} of a name whose stepped octet is one of these sorts on the wrong side of the name", stmt="octet-step")
    rep.assume("bytes comparison and bytes.lower() are trusted (ASCII-only folding, total order on octet strings)")
    # ---------------------------------------------------------------- R-06.8
    pm = model.func("dns.name._pad_to_max_name")
    env8 = pat.Env()
    hit = pat.find(pm.node, "while __needed > ___K:\n    __nl.append(___X * ___L)\n    __needed -= ___S\nif __needed >= ___M:\n    __nl.append(___X * (__needed - ___D))", env8)
    if hit is None:
        rep.blind("R-06.8", pm.qualname, where(pm, pm.node), "the padding loop `while needed > K: append(octet * L); needed -= S` followed by the tail label was not found", stmt="pad-name")
    else:
        try:
            K, L, S, M, D = (int(model.const(pm.module, ast.parse(env8["___" + k], mode="eval").body)) for k in "KLSMD")
            okk = L <= 63 and S == L + 1 and K >= S and K - D <= 63 and D == 1 and M >= D + 1
            rep.check(okk, "R-06.8", pm.qualname, where(pm, hit[0][hit[1]]), f"labels of {L} octets while needed > {K} (each costs {S}); last label needed-{D} <= {K - D}",
                      f"padding arithmetic: loop `while needed > {K}` appends {L}-octet labels costing {S}, tail appends needed-{D} octets when needed >= {M}: "
                      f"the tail label can be {K - D} octets long (limit 63) or the accounting is off, so predecessor() raises LabelTooLong / NameTooLong for some origins instead of returning a name", stmt="pad-name")
        except (AnalysisError, KeyError, ValueError) as e:
            rep.blind("R-06.8", pm.qualname, where(pm, pm.node), f"padding constants not foldable: {e}", stmt="pad-name")
    pl = model.func("dns.name._pad_to_max_label")
    rep.check(pat.has_expr(pl.node, "min(63 - __length, __remaining)") or pat.has_expr(pl.node, "min(__remaining, 63 - __length)"), "R-06.8", pl.qualname, where(pl, pl.node),
              "a label is extended by min(63 - len(label), room left in the name)", "the label extension is no longer bounded by 63 - len(label) and the room left in the name", stmt="pad-label")
    # ---------------------------------------------------------------- R-06.10
    nd = model.cls("dns.namedict.NameDict")
    n_st = 0
    for m_ in sorted(nd.methods.values(), key=lambda g: g.qualname):
        for x in ast.walk(m_.node):
            tg = None
            if isinstance(x, ast.Assign) and any(isinstance(t_, ast.Attribute) and t_.attr.endswith("__store") for t_ in x.targets):
                tg, val = x, x.value
                n_st += 1
                empty = (isinstance(val, ast.Call) and src(val.func) == "dict" and not val.args and not val.keywords) or (isinstance(val, ast.Dict) and not val.keys)
                rep.check(m_.name == "__init__" and empty, "R-06.10", m_.qualname, where(m_, x), "the store starts empty",
                          f"`{src(x)[:60]}` fills the store directly: keys entered this way never pass __setitem__, so max_depth / max_depth_items do not count them and get_deepest_match misses superdomains "
                          "deeper than max_depth", stmt="store-empty-init")
            if isinstance(x, ast.Call) and isinstance(x.func, ast.Attribute) and x.func.attr in ("update", "setdefault", "__setitem__") and isinstance(x.func.value, ast.Attribute) and x.func.value.attr.endswith("__store"):
                n_st += 1
                rep.bad("R-06.10", m_.qualname, where(m_, x), f"`{src(x)[:60]}` adds keys to the store without the max_depth bookkeeping of __setitem__", stmt="store-bulk-write")
    sets_ = [x for m_ in nd.methods.values() if m_.name == "__setitem__" for x in ast.walk(m_.node) if isinstance(x, ast.Call) and src(x.func).endswith("__update_max_depth")]
    rep.check(bool(sets_), "R-06.10", "dns.namedict.NameDict.__setitem__", nd.file, "__setitem__ maintains max_depth", "__setitem__ no longer calls __update_max_depth", stmt="setitem-updates-depth")
    rep.floor("R-06.10", n_st, 1)
    # ---------------------------------------------------------------- R-06.9
    nm = model.modules["dns.name"]
    name_consts = set()
    for k_, v_ in nm.assigns.items():
        if isinstance(v_, ast.Call) and src(v_.func) == "Name":
            name_consts.add(k_)
    n_id = 0
    for f9 in sorted(model.all_functions(), key=lambda g: g.qualname):
        if f9.module.name != "dns.name":
            continue
        for c in ast.walk(f9.node):
            if isinstance(c, ast.Compare) and len(c.ops) == 1 and isinstance(c.ops[0], (ast.Is, ast.IsNot)):
                for side in (c.left, c.comparators[0]):
                    if isinstance(side, ast.Name) and side.id in name_consts:
                        n_id += 1
                        rep.bad("R-06.9", f9.qualname, where(f9, c), f"`{src(c)}` compares a name by identity with the constant `{side.id}`: a name equal to it but not that object "
                                "(Name([]), the origin relativized to itself, a copy) takes the other branch, so equal names behave differently", stmt=f"identity {side.id}")
    rep.floor("R-06.9-name-constants", len(name_consts), 2)
    rep.ok("R-06.9", "dns.name", "dns/name.py", f"no identity comparison with the Name constants {sorted(name_consts)}", stmt="no-identity-compare")
    from rules.c15 import check_name_canonical_wire
    check_name_canonical_wire(model, rep, "R-06.12")
    rep.meta["explanation"] = (
        "Names are touched only through comparisons, a finite structure: the operator table, the single normaliser shared by compare/hash/canonical forms, "
        "the mirrored arms of fullcompare and the relativity guards are read from the AST and compared with RFC 4034 6.1. Totality/transitivity follow from these plus "
        "properties of bytes comparison (trusted). The RFC 4471 octet step is decided by constant propagation over the 256 octet values (R-06.5); the length handling of successor/predecessor is NOT decided.")


def _blocks(fn):
    out = []
    for n in ast.walk(fn):
        for fld in ("body", "orelse", "finalbody"):
            b = getattr(n, fld, None)
            if isinstance(b, list) and b and isinstance(b[0], ast.stmt):
                out.append(b)
    return out


WITNESSES = [
    {"id": "c06-fullcompare-subdomain-fast-path", "rule": "R-06.11", "file": "dns/name.py", "expect": "fires",
     "old": "        namereln = NameRelation.NONE\n        while l > 0:", "new": "        namereln = NameRelation.NONE\n        if ldiff > 0 and self.labels[ldiff:] == other.labels:\n            return (NameRelation.SUBDOMAIN, ldiff, nlabels)\n        while l > 0:"},
    {"id": "c06-fullcompare-equal-fast-path", "rule": "R-06.11", "file": "dns/name.py", "expect": "fires",
     "old": "        l1 = len(self.labels)\n        l2 = len(other.labels)\n        ldiff = l1 - l2", "new": "        if self.labels == other.labels:\n            return (NameRelation.EQUAL, 0, 0)\n        l1 = len(self.labels)\n        l2 = len(other.labels)\n        ldiff = l1 - l2"},
    {"id": "c06-namedict-init-fills-store", "rule": "R-06.10", "file": "dns/namedict.py", "expect": "fires",
     "old": "        self.__store = dict()\n", "new": "        self.__store = dict(*args, **kwargs)\n"},
    {"id": "c06-parent-empty-by-identity", "rule": "R-06.9", "file": "dns/name.py", "expect": "fires",
     "old": "        if self == root or self == empty:\n            raise NoParent", "new": "        if self == root or self is empty:\n            raise NoParent"},
    {"id": "c06-le-compares-with-value-set", "rule": "R-06.1", "file": "dns/name.py", "expect": "fires",
     "old": "            return self.fullcompare(other)[1] <= 0", "new": "            return self.fullcompare(other)[1] in (-1, 0)"},
    {"id": "c06-pad-loop-bound-65", "rule": "R-06.8", "file": "dns/name.py", "expect": "fires",
     "old": "    while needed > 64:\n        new_labels.append(_MAXIMAL_OCTET * 63)", "new": "    while needed > 65:\n        new_labels.append(_MAXIMAL_OCTET * 63)"},
    {"id": "c06-twin-pad-loop-ge-65", "rule": "R-06.8", "file": "dns/name.py", "expect": "silent",
     "old": "    while needed > 64:\n        new_labels.append(_MAXIMAL_OCTET * 63)", "new": "    while 64 < needed:\n        new_labels.append(_MAXIMAL_OCTET * 63)"},
    {"id": "c06-apex-test-on-label-tuples", "rule": "R-06.7", "file": "dns/name.py", "expect": "fires",
     "old": "    if name == origin:\n        return _pad_to_max_name(name)", "new": "    if name.labels == origin.labels:\n        return _pad_to_max_name(name)"},
    {"id": "c06-relativize-negative-zero-slice", "rule": "R-06.6", "file": "dns/name.py", "expect": "fires",
     "old": "            return Name(self.labels[: len(self.labels) - len(origin)])", "new": "            return Name(self[: -len(origin)])"},
    {"id": "c06-successor-steps-onto-bracket-for-all-uppercase", "rule": "R-06.5", "file": "dns/name.py", "expect": "fires",
     "old": "            if octet == _AT_SIGN_VALUE:\n                octet = _LEFT_SQUARE_BRACKET_VALUE\n            elif octet == _UPPER_Z_VALUE:", "new": "            if 0x40 <= octet <= 0x59:\n                octet = _LEFT_SQUARE_BRACKET_VALUE\n            elif octet == _UPPER_Z_VALUE:"},
    {"id": "c06-twin-successor-z-literal", "rule": "R-06.5", "file": "dns/name.py", "expect": "silent",
     "old": "            elif octet == _UPPER_Z_VALUE:", "new": "            elif octet == 0x5A:"},
    {"id": "c06-successor-z-not-special", "rule": "R-06.5", "file": "dns/name.py", "expect": "fires",
     "old": "            elif octet == _UPPER_Z_VALUE:\n                # \"Z\" compares as \"z\", so the next value in canonical order is \"{\";\n                # \"[\" would sort before the name.\n                octet = _LEFT_CURLY_BRACKET_VALUE\n", "new": ""},
    {"id": "c06-predecessor-bracket-not-special", "rule": "R-06.5", "file": "dns/name.py", "expect": "fires",
     "old": "        if octet == _LEFT_SQUARE_BRACKET_VALUE:\n            octet = _AT_SIGN_VALUE\n        else:\n            octet -= 1", "new": "        octet -= 1"},
    {"id": "c06-fullcompare-folds-upper", "rule": "R-06.2", "file": "dns/name.py", "expect": "fires",
     "old": "            label1 = self.labels[l1].lower()\n            label2 = other.labels[l2].lower()", "new": "            label1 = self.labels[l1].upper()\n            label2 = other.labels[l2].upper()"},
    {"id": "c06-le-uses-lt", "rule": "R-06.1", "file": "dns/name.py", "expect": "fires",
     "old": "            return self.fullcompare(other)[1] <= 0", "new": "            return self.fullcompare(other)[1] < 0"},
    {"id": "c06-gt-flipped-twin", "rule": "R-06.1", "file": "dns/name.py", "expect": "silent",
     "old": "            return self.fullcompare(other)[1] > 0", "new": "            return 0 < self.fullcompare(other)[1]"},
    {"id": "c06-hash-unfolded", "rule": "R-06.2", "file": "dns/name.py", "expect": "fires",
     "old": "            for c in label.lower():", "new": "            for c in label:"},
    {"id": "c06-one-operand-unfolded", "rule": "R-06.2", "file": "dns/name.py", "expect": "fires",
     "old": "            label2 = other.labels[l2].lower()", "new": "            label2 = other.labels[l2]"},
    {"id": "c06-relativity-sign", "rule": "R-06.3", "file": "dns/name.py", "expect": "fires",
     "old": "            if sabs:\n                return (NameRelation.NONE, 1, 0)\n            else:\n                return (NameRelation.NONE, -1, 0)",
     "new": "            if sabs:\n                return (NameRelation.NONE, -1, 0)\n            else:\n                return (NameRelation.NONE, 1, 0)"},
    {"id": "c06-arm-sign", "rule": "R-06.3", "file": "dns/name.py", "expect": "fires",
     "old": "            elif label1 > label2:\n                order = 1", "new": "            elif label1 > label2:\n                order = -1"},
    {"id": "c06-subdomain-strict", "rule": "R-06.3", "file": "dns/name.py", "expect": "fires",
     "old": "        if nr == NameRelation.SUBDOMAIN or nr == NameRelation.EQUAL:", "new": "        if nr == NameRelation.SUBDOMAIN:"},
    {"id": "c06-relativize-off-by-one", "rule": "R-06.4", "file": "dns/name.py", "expect": "fires",
     "old": "return Name(self[: -len(origin)])", "new": "return Name(self[: -len(origin) + 1])"},
    {"id": "c06-tiebreak-reversed", "rule": "R-06.3", "file": "dns/name.py", "expect": "fires",
     "old": "        ldiff = l1 - l2", "new": "        ldiff = l2 - l1"},
    {"id": "c06-eq-foreign-true", "rule": "R-06.1", "file": "dns/name.py", "expect": "fires",
     "old": "            return self.fullcompare(other)[1] == 0\n        else:\n            return False", "new": "            return self.fullcompare(other)[1] == 0\n        else:\n            return True"},
]
