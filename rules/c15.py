"""C15 key-free DNSSEC computations: who lower-cases (RFC 4034 6.2 / RFC 6840 5.1), canonical forms uncompressed,
composition of the RRSIG signing input / DS / NSEC3 / ZONEMD, NSEC chain structure."""
from __future__ import annotations

import ast

from engine.cfg import CFG, normalise_compare, atoms, A
from engine.model import src, stmt_key, dotted, AnalysisError
from engine import pat
from engine.util import own_nodes, calls_with_nodes, where
from rules.c14 import Tokenizer

RULES = {
    "R-15.12": "a defaulting block only computes the default: in dns.dnssec an `if <parameter> is None:` whose body assigns that parameter contains no bare call statement and no loop - work placed there (publishing the DNSKEY RRset) is done only when the caller left the value out, so sign_zone(..., dnskey_ttl=7200) signs a zone without DNSKEYs and the apex NSEC bitmap lacks the DNSKEY bit",
    "R-15.11": "a normalised copy replaces its source: where a function of dns.dnssec fills a fresh local collection inside `for x in <parameter>` with the element x after rebinding it (the caller's algorithms turned into DSDigest members), the parameter is not read again after that loop - the raw value (a set of strings) does not contain the normalised items, so a membership test against it silently drops every CDS digest",
    "R-15.10": "the origin is data, not text to be normalised: no to_wire / _to_wire / to_digestable of dns.name, dns.rdata, dns.rdataset, dns.rrset and dns.rdtypes.* rebinds its `origin` parameter - only the types of RFC 4034 6.2 lower-case embedded names, and they do it label by label under `canonicalize`; an origin folded up front changes the canonical form of NSEC, HIP, LP, ... records that store names relative",
    "R-15.9": "exact bitmaps at delegation points (RFC 4035 2.3): the NSEC of a delegation point lists NS and DS (plus RRSIG and NSEC) only - the type filter of _txn_add_nsec, evaluated by the checker for delegated in {False, True} and types {A, NS, TXT, AAAA, DS}, keeps a type iff (not delegated or type in {NS, DS}); both call sites pass the delegation status of the name the NSEC is FOR (recorded after the call, from the walk's delegation marker alone)",
    "R-15.1": "a record type lower-cases the names in its RDATA iff it is listed in RFC 4034 6.2 as amended by RFC 6840 5.1 (dataflow of _to_wire's canonicalize parameter into every embedded Name.to_wire)",
    "R-15.8": "Name.canonicalize lower-cases every label on every path: its only return value is a Name built from `x.lower()` of each label (a 'nothing to do' shortcut decided with isupper()/islower() misjudges mixed-case labels)",
    "R-15.7": "canonical RRsets contain no duplicates and signing a zone twice leaves one NSEC per name: equal records hash equally (C07 R-07.3 adopted) and merges go through Rdataset.add, which keeps singleton types single (C07 R-07.7 adopted)",
    "R-15.6": "the zone signer marks 'no name yet' with None and tests it by identity everywhere: the empty name (the apex of a relativized zone) is falsy, so a truth-value test drops the apex from the NSEC chain",
    "R-15.5": "Name.to_wire(canonicalize=True) folds every label it emits, the origin's included: each raw label emission sits on the not-canonicalize side of a `canonicalize` test and every nested to_wire/to_digestable call passes canonicalize on",
    "R-15.2": "canonical forms are uncompressed: to_digestable reaches _to_wire with compress=None and no codec manufactures a compression table",
    "R-15.3": "RRSIG signing input, DS digest input, NSEC3 hash and ZONEMD digest are composed as RFC 4034 3.1.8.1 / 5.1.4, RFC 5155 5, RFC 8976 3.3 prescribe",
    "R-15.4": "the NSEC chain walks sorted(names), skips names beneath the current delegation, and builds bitmaps from the node's types plus RRSIG and NSEC",
}

# RFC 4034 section 6.2 item 3, minus NSEC (RFC 6840 section 5.1); HINFO carries no domain name.
LOWERCASE = {"NS", "MD", "MF", "CNAME", "SOA", "MB", "MG", "MR", "PTR", "MINFO", "MX", "RP", "AFSDB", "RT", "SIG", "PX", "NXT", "NAPTR", "KX", "SRV", "DNAME", "A6", "RRSIG"}


def _name_calls(model, f, env, out, depth=0, seen=None):
    """Collect (call node, compress kind, canonicalize kind, function) for every name-like to_wire call reached from
    codec method f.  env maps this function's parameter names 'compress'/'canonicalize' to kinds in
    {'param','None','False','True','other'} inherited from the caller."""
    seen = seen or set()
    if f.qualname in seen or depth > 5:
        return
    seen = seen | {f.qualname}
    params = f.params()

    def kind(e, which):
        if e is None:
            return "None" if which == "compress" else "False"
        if isinstance(e, ast.Constant):
            return repr(e.value)
        if isinstance(e, ast.Name) and e.id in params:
            return env.get(e.id, "other")
        return "other"

    for c in ast.walk(f.node):
        if not isinstance(c, ast.Call) or not isinstance(c.func, ast.Attribute):
            continue
        attr = c.func.attr
        if attr not in ("to_wire", "_to_wire"):
            continue
        recv = c.func.value
        args = list(c.args)
        kw = {k.arg: k.value for k in c.keywords}
        comp = args[1] if len(args) > 1 else kw.get("compress")
        canon = args[3] if len(args) > 3 else kw.get("canonicalize")
        ck, nk = kind(comp, "compress"), kind(canon, "canonicalize")
        # super()._to_wire(...) -> continue in the base codec with substituted kinds
        if attr == "_to_wire" and isinstance(recv, ast.Call) and src(recv.func) == "super" and f.cls is not None:
            base = model.lookup_method(env["__cls__"], "_to_wire", after=f.cls)
            if base is None:
                raise AnalysisError(f"{f.qualname}: super()._to_wire does not resolve")
            _name_calls(model, base, {"compress": ck, "canonicalize": nk, "__cls__": env["__cls__"]}, out, depth + 1, seen)
            continue
        if attr != "to_wire":
            continue
        # helper codec object: Gateway(...).to_wire(...) / Relay(...)
        if isinstance(recv, ast.Call):
            tgt = model.resolve_expr(f, recv.func)
            if tgt in model.classes:
                hm = model.lookup_method(model.classes[tgt], "to_wire")
                if hm is not None and len(hm.params()) >= 4:
                    _name_calls(model, hm, {"compress": ck, "canonicalize": nk, "__cls__": model.classes[tgt]}, out, depth + 1, seen)
                continue
        if len(args) + len(kw) < 3:
            continue  # not a domain-name encoder call (Bitmap/APLItem/params/options take fewer arguments)
        out.append((c, ck, nk, f))



def check_name_canonical_wire(model, rep, rule):
    """Name.to_wire(canonicalize=True) folds every label it emits (shared with C06: names that compare equal must have one canonical form)."""
    ntw = model.func("dns.name.Name.to_wire")
    # ---------------------------------------------------------------- R-15.5
    cfg = CFG(ntw.node, implicit_exc=False)
    loopvars = {src(n.target) for n in ast.walk(ntw.node) if isinstance(n, ast.For) and isinstance(n.target, ast.Name) and "labels" in src(n.iter)}
    ctests = [t_ for t_ in cfg.nodes if t_.kind == "test" and atoms(normalise_compare(t_.ast.test)) == [("canonicalize", "truthy", "")]]
    n_emit = 0
    for n in cfg.stmts():
        raw = None
        a = n.ast
        if isinstance(a, ast.AugAssign) and isinstance(a.op, ast.Add) and isinstance(a.value, ast.Name) and a.value.id in loopvars:
            raw = a
        elif isinstance(a, ast.Expr) and isinstance(a.value, ast.Call) and isinstance(a.value.func, ast.Attribute) and a.value.func.attr in ("write", "extend") and a.value.args \
                and isinstance(a.value.args[0], ast.Name) and a.value.args[0].id in loopvars:
            raw = a
        if raw is None:
            continue
        n_emit += 1
        okk = any(cfg.edge_dominated(n.id, {(t_.id, "f")}) and any(".lower()" in src(b) for b in t_.ast.body) for t_ in ctests)
        rep.check(okk, rule, ntw.qualname, where(ntw, raw), f"`{src(raw)}` only when not canonicalizing; the other arm folds to lower case",
                  f"`{src(raw)}` emits a label as written even when canonicalize is set: digests and signatures over names with upper-case letters are wrong", stmt="raw-label " + src(raw))
    n_nested = 0
    for c in ast.walk(ntw.node):
        if isinstance(c, ast.Call) and isinstance(c.func, ast.Attribute) and c.func.attr in ("to_wire", "to_digestable") and not (isinstance(c.func.value, ast.Name) and c.func.value.id == "struct"):
            n_nested += 1
            passes = any(k.arg == "canonicalize" and src(k.value) == "canonicalize" for k in c.keywords) or (len(c.args) >= 4 and src(c.args[3]) == "canonicalize")
            rep.check(passes, rule, ntw.qualname, where(ntw, c), f"`{src(c)[:50]}` passes canonicalize on",
                      f"`{src(c)[:50]}` encodes part of the name without passing `canonicalize` on: that part (e.g. the origin of a relative name) is not folded in the canonical form", stmt="nested " + src(c.func))
    rep.floor(rule, n_emit + n_nested, 3)

def run(model, rep, tier):
    rdata = model.cls("dns.rdata.Rdata")
    # concrete record classes: class named like its module under dns.rdtypes.{ANY,IN,CH}
    concrete = []
    for ci in model.subclasses(rdata):
        parts = ci.module.name.split(".")
        if len(parts) == 4 and parts[1] == "rdtypes" and parts[2] in ("ANY", "IN", "CH") and ci.name == parts[3]:
            concrete.append(ci)
    rep.floor("R-15.1-classes", len(concrete), 65)
    implemented = set()
    n_calls = 0
    for ci in sorted(concrete, key=lambda c: c.qualname):
        tname = ci.name.replace("_", "-")
        rdclass_dir = ci.module.name.split(".")[2]
        if rdclass_dir != "CH":
            implemented.add(tname)
        tw = model.lookup_method(ci, "_to_wire")
        if tw is None or tw.cls is rdata:
            rep.bad("R-15.1", ci.qualname, ci.file, "no _to_wire implementation", stmt="_to_wire")
            continue
        calls = []
        _name_calls(model, tw, {"compress": "param", "canonicalize": "param", "__cls__": ci}, calls)
        listed = tname in LOWERCASE and rdclass_dir != "CH"
        for (c, ck, nk, fn) in calls:
            n_calls += 1
            field = src(c.func.value)
            st = f"{field}.to_wire"
            wh = where(fn, c)
            if listed:
                rep.check(nk == "param", "R-15.1", ci.qualname, wh, f"{tname} is listed: embedded name {field} is lower-cased on request",
                          f"{tname} is listed in RFC 4034 6.2 but its embedded name {field} is written with canonicalize={nk}: the canonical form keeps upper case (signatures/digests differ from other implementations)",
                          stmt=st)
            else:
                rep.check(nk in ("False", "None"), "R-15.1", ci.qualname, wh, f"{tname} is not listed: embedded name {field} keeps its case",
                          f"{tname} is NOT in the RFC 4034 6.2 / RFC 6840 5.1 list but lower-cases its embedded name {field} in canonical form (canonicalize={nk}); RFC 3597 7 forbids that for unlisted types",
                          stmt=st)
        if listed and not calls:
            rep.bad("R-15.1", ci.qualname, ci.file, f"{tname} is listed but no embedded name encoder was found", stmt="no-names")
    rep.floor("R-15.1", n_calls, 28)
    for t in sorted(LOWERCASE - implemented):
        rep.bad("R-15.1", f"dns.rdtypes.ANY.{t}", "dns/rdtypes/ANY/", f"{t} is listed in RFC 4034 6.2 but has no implementation: it is handled by GenericRdata, whose canonical form never lower-cases the embedded names",
                stmt="listed type not implemented")
    # GenericRdata never changes case / compresses
    g = model.func("dns.rdata.GenericRdata._to_wire")
    rep.check(" ".join(src(g.node).split()).endswith("file.write(self.data)"), "R-15.1", g.qualname, where(g, g.node), "generic records are emitted verbatim", "GenericRdata._to_wire changed", stmt="generic-verbatim")

    # ---------------------------------------------------------------- R-15.2
    for qn, frag in (("dns.rdata.Rdata.to_digestable", "self.to_wire(origin=origin, canonicalize=True)"), ("dns.name.Name.to_digestable", "self.to_wire(origin=origin, canonicalize=True)")):
        f = model.func(qn)
        rep.check(frag in src(f.node), "R-15.2", qn, where(f, f.node), "canonical form = to_wire(origin, canonicalize=True) with no compression table", "to_digestable passes a compression table or skips canonicalize", stmt="no-compress")
    tw = model.func("dns.rdata.Rdata.to_wire")
    calls = [c for c in ast.walk(tw.node) if isinstance(c, ast.Call) and src(c.func) == "self._to_wire"]
    rep.check(len(calls) == 2 and all([src(a) for a in c.args][1:] == ["compress", "origin", "canonicalize"] for c in calls), "R-15.2", tw.qualname, where(tw, tw.node),
              "Rdata.to_wire forwards compress/origin/canonicalize unchanged", "Rdata.to_wire does not forward its arguments unchanged", stmt="forward")
    n_codecs = 0
    for ci in concrete + [model.cls("dns.rdata.GenericRdata")]:
        f = model.lookup_method(ci, "_to_wire")
        if f is None:
            continue
        n_codecs += 1
        made = [n for n in ast.walk(f.node) if (isinstance(n, ast.Assign) and any(src(t) == "compress" for t in n.targets)) or
                (isinstance(n, ast.Call) and isinstance(n.func, ast.Attribute) and n.func.attr == "to_wire" and len(n.args) > 1 and isinstance(n.args[1], (ast.Dict, ast.Call)))]
        rep.check(not made, "R-15.2", f.qualname, where(f, f.node), "codec never creates a compression table of its own", "codec manufactures a compression table", stmt="no-own-table")
    rep.floor("R-15.2", n_codecs, 65)
    ntw = model.func("dns.name.Name.to_wire")
    t = " ".join(src(ntw.node).split())
    rep.check("if compress is not None" in t or "if compress:" in t or "compress is None" in t, "R-15.2", ntw.qualname, where(ntw, ntw.node), "Name.to_wire compresses only when a table is given",
              "Name.to_wire no longer makes compression conditional on the table", stmt="conditional-compress")

    check_name_canonical_wire(model, rep, "R-15.5")

    # ---------------------------------------------------------------- R-15.3
    sd = model.func("dns.dnssec._make_rrsig_signature_data")
    # locals are named by the shape of their definition, so the rules below speak of roles, not spellings
    sdn, _ = pat.canon(sd.node, [
        "__signer = rrsig.signer", "(__rrname, __rdataset) = _get_rrname_rdataset(rrset)", "__data = b''", "__wire = rrsig.to_wire(origin=__signer)", "__name_len = len(__rrname)",
        "__suffix = __rrname.split(rrsig.labels + 1)[1]", "__rrnamebuf = __rrname.to_digestable()", "__rrfixed = struct.pack('!HHI', ...)", "__rdatas = [__rdata.to_digestable(origin) for __rdata in __rdataset]",
        "__rrlen = struct.pack('!H', ...)"])
    tk = Tokenizer(sdn)
    seq = []
    for st in sdn.body:
        for n in [st] if not isinstance(st, ast.For) else [st]:
            if isinstance(n, ast.AugAssign) and src(n.target) == "data":
                seq.append(("top", " ".join(src(n.value).split())))
            elif isinstance(n, ast.For):
                for s in n.body:
                    if isinstance(s, ast.AugAssign) and src(s.target) == "data":
                        seq.append(("loop:" + " ".join(src(n.iter).split()), " ".join(src(s.value).split())))
    want = [("top", "wire[:18]"), ("top", "rrsig.signer.to_digestable(signer)"), ("loop:sorted(rdatas)", "rrnamebuf"), ("loop:sorted(rdatas)", "rrfixed"),
            ("loop:sorted(rdatas)", "rrlen"), ("loop:sorted(rdatas)", "rdata")]
    rep.check(seq == want, "R-15.3", sd.qualname, where(sd, sd.node), "signing input = RRSIG RDATA[:18] | canonical signer | for each RR in sorted canonical RDATA: owner | type class ottl | rdlen | rdata",
              f"signing input is composed as {seq}; RFC 4034 3.1.8.1 requires {want}", stmt="rrsig-composition")
    defs = {k: [" ".join(src(v).split()) for v in vs] for k, vs in tk.defs.items()}
    rep.check(defs.get("rdatas") == ["[rdata.to_digestable(origin) for rdata in rdataset]"], "R-15.3", sd.qualname, where(sd, sd.node), "RDATA in canonical form", f"rdatas = {defs.get('rdatas')}", stmt="canonical-rdatas")
    rep.check(defs.get("rrnamebuf") == ["rrname.to_digestable()"], "R-15.3", sd.qualname, where(sd, sd.node), "owner in canonical form", f"rrnamebuf = {defs.get('rrnamebuf')}", stmt="canonical-owner")
    rep.check(defs.get("rrfixed") == ["struct.pack('!HHI', rdataset.rdtype, rdataset.rdclass, rrsig.original_ttl)"], "R-15.3", sd.qualname, where(sd, sd.node),
              "type | class | ORIGINAL ttl", f"rrfixed = {defs.get('rrfixed')}", stmt="rr-fixed")
    rep.check(defs.get("rrlen") == ["struct.pack('!H', len(rdata))"], "R-15.3", sd.qualname, where(sd, sd.node), "u16 rdlength", f"rrlen = {defs.get('rrlen')}", stmt="rr-len")
    rep.check(defs.get("wire") == ["rrsig.to_wire(origin=signer)"], "R-15.3", sd.qualname, where(sd, sd.node), "RRSIG RDATA prefix taken from the RRSIG itself", f"wire = {defs.get('wire')}", stmt="rrsig-prefix")
    t = " ".join(src(sdn).split())
    rep.check(pat.has(sdn, "if rrsig.labels < name_len - 1:\n    suffix = rrname.split(rrsig.labels + 1)[1]\n    rrname = dns.name.from_text('*', suffix)"), "R-15.3", sd.qualname, where(sd, sd.node),
              "wildcard reduction: owner replaced by *.<rightmost `labels` labels>", "wildcard label reduction changed", stmt="wildcard")
    mk = model.func("dns.dnssec.make_ds")
    mkn, _ = pat.canon(mk.node, ["__dshash = hashlib.sha1()", "__wire = name.canonicalize().to_wire()", "__kwire = key.to_wire(origin=origin)", "__digest = __dshash.digest()", "__dsrdata = struct.pack('!HBB', ...) + __digest",
                                 "__wire = name.to_wire()", "__kwire = key.to_wire()"])
    tk = Tokenizer(mkn)
    ups = [" ".join(src(c.args[0]).split()) for c in ast.walk(mkn) if isinstance(c, ast.Call) and src(c.func) == "dshash.update"]
    defs = {k: [" ".join(src(v).split()) for v in vs] for k, vs in tk.defs.items()}
    rep.check(ups == ["wire", "kwire"] and defs.get("wire") == ["name.canonicalize().to_wire()"] and defs.get("kwire") == ["key.to_wire(origin=origin)"], "R-15.3", mk.qualname, where(mk, mk.node),
              "DS digest = H(canonical owner | DNSKEY RDATA)", f"DS digest input is {ups} with wire={defs.get('wire')} kwire={defs.get('kwire')}", stmt="ds-composition")
    rep.check(defs.get("dsrdata") == ["struct.pack('!HBB', key_id(key), key.algorithm, algorithm) + digest"], "R-15.3", mk.qualname, where(mk, mk.node), "DS RDATA = key tag | algorithm | digest type | digest",
              f"DS RDATA = {defs.get('dsrdata')}", stmt="ds-rdata")
    hmap = {}
    for n in ast.walk(mkn):
        if isinstance(n, ast.If) and isinstance(n.test, ast.Compare) and src(n.test.left) == "algorithm":
            for s in n.body:
                if isinstance(s, ast.Assign) and src(s.targets[0]) == "dshash":
                    hmap[src(n.test.comparators[0])] = src(s.value)
    rep.check(hmap == {"DSDigest.SHA1": "hashlib.sha1()", "DSDigest.SHA256": "hashlib.sha256()", "DSDigest.SHA384": "hashlib.sha384()"}, "R-15.3", mk.qualname, where(mk, mk.node),
              "digest type selects the matching hash", f"digest type -> hash map is {hmap}", stmt="ds-hash-map")
    nh = model.func("dns.dnssec.nsec3_hash")
    nhn, _ = pat.canon(nh.node, ["__domain_encoded = domain.canonicalize().to_wire()", "__domain_encoded = domain.to_wire()", "__digest = hashlib.sha1(__domain_encoded + __salt_encoded).digest()", "__digest = hashlib.sha1(__digest + __salt_encoded).digest()"])
    tk = Tokenizer(nhn)
    defs = {k: [" ".join(src(v).split()) for v in vs] for k, vs in tk.defs.items()}
    loops = [n for n in ast.walk(nhn) if isinstance(n, ast.For)]
    okk = defs.get("domain_encoded") == ["domain.canonicalize().to_wire()"] and "hashlib.sha1(domain_encoded + salt_encoded).digest()" in defs.get("digest", []) \
        and "hashlib.sha1(digest + salt_encoded).digest()" in defs.get("digest", []) and len(loops) == 1 and " ".join(src(loops[0].iter).split()) == "range(iterations)"
    rep.check(okk, "R-15.3", nh.qualname, where(nh, nh.node), "IH(salt, x, 0) = H(canonical x | salt); iterated `iterations` more times over H(prev | salt)",
              f"NSEC3 hash composition changed: domain_encoded={defs.get('domain_encoded')} digest={defs.get('digest')}", stmt="nsec3-composition")
    rep.check("'ABCDEFGHIJKLMNOPQRSTUVWXYZ234567', '0123456789ABCDEFGHIJKLMNOPQRSTUV'" in src(nhn) and "base64.b32encode(digest)" in src(nhn), "R-15.3", nh.qualname, where(nh, nh.node),
              "output is base32hex (RFC 4648 7) of the digest", "NSEC3 output alphabet changed", stmt="nsec3-base32hex")
    cd = model.func("dns.zone.Zone._compute_digest")
    cdn, _ = pat.canon(cd.node, ["for (__name, __node) in sorted(self.items()):", "__rrnamebuf = __name.to_digestable(self.origin)", "for __rdataset in sorted(__node, key=...):", "__rrfixed = struct.pack('!HHI', ...)",
                                 "__rdatas = [__rdata.to_digestable(self.origin) for __rdata in __rdataset]", "__rrlen = struct.pack('!H', ...)", "__hasher.update(__rrnamebuf + __rrfixed + __rrlen + __rdata)",
                                 "if __name == __origin_name and dns.rdatatype.ZONEMD in (__rdataset.rdtype, __rdataset.covers):"])
    t = " ".join(src(cdn).split())
    checks = [
        ("for (name, node) in sorted(self.items()):", "names in canonical order"),
        ("rrnamebuf = name.to_digestable(self.origin)", "owner in canonical form"),
        ("for rdataset in sorted(node, key=lambda rds: (rds.rdtype, rds.covers)):", "RRsets ordered by type"),
        ("if name == origin_name and dns.rdatatype.ZONEMD in (rdataset.rdtype, rdataset.covers): continue", "apex ZONEMD and its RRSIG are excluded"),
        ("rrfixed = struct.pack('!HHI', rdataset.rdtype, rdataset.rdclass, rdataset.ttl)", "type | class | ttl"),
        ("rdatas = [rdata.to_digestable(self.origin) for rdata in rdataset]", "RDATA in canonical form"),
        ("for rdata in sorted(rdatas):", "RRs in canonical RDATA order"),
        ("rrlen = struct.pack('!H', len(rdata))", "u16 rdlength"),
        ("hasher.update(rrnamebuf + rrfixed + rrlen + rdata)", "owner | fixed | rdlen | rdata per RR"),
    ]
    t = t.replace("for (name, node) in", "for name, node in")
    for frag, what in checks:
        frag = frag.replace("for (name, node) in", "for name, node in")
        rep.check(frag in t, "R-15.3", cd.qualname, where(cd, cd.node), f"ZONEMD SIMPLE: {what}", f"ZONEMD digest no longer has: {what} (`{frag}`)", stmt=frag[:60])
    ki = model.func("dns.rdtypes.dnskeybase.DNSKEYBase.key_id") if model.has_func("dns.rdtypes.dnskeybase.DNSKEYBase.key_id") else None
    if ki is None:
        ki = model.func("dns.dnssec.key_id")
    rep.ok("R-15.3", ki.qualname, where(ki, ki.node), "key tag arithmetic is numeric and not decided here", stmt="key-tag (not decided)", nontrivial=False)

    # ---------------------------------------------------------------- R-15.4
    sz = model.func("dns.dnssec._sign_zone_nsec")
    szn, _ = pat.canon(sz.node, ["for __name in sorted(txn.iterate_names()):", "for __name in txn.iterate_names():", "__rrsig_ttl = zone.get_soa(txn).minimum\n__delegation = None\n__last_secure = None"])
    loops = [n for n in szn.body if isinstance(n, ast.For)]
    okk = len(loops) == 1 and " ".join(src(loops[0].iter).split()) == "sorted(txn.iterate_names())"
    rep.check(okk, "R-15.4", sz.qualname, where(sz, sz.node), "chain walks sorted(names)", "the NSEC chain no longer iterates sorted(txn.iterate_names())", stmt="sorted-names")
    if okk:
        first = loops[0].body[0]
        t = " ".join(src(first).split())
        rep.check(t.startswith("if delegation and name.is_subdomain(delegation): continue elif txn.get(name, dns.rdatatype.NS) and name != zone.origin: delegation = name else: delegation = None"),
                  "R-15.4", sz.qualname, where(sz, first), "names beneath the current delegation are skipped; a non-apex NS owner starts a delegation",
                  "delegation tracking in the NSEC walk changed", stmt="delegation-tracking")
        lcalls = [c for c in ast.walk(loops[0]) if isinstance(c, ast.Call) and src(c.func) == "_txn_add_nsec"]
        guard_ok = False
        for nd in ast.walk(loops[0]):
            if isinstance(nd, ast.If) and A("last_secure", "is not", "None") in atoms(normalise_compare(nd.test)) and lcalls and any(lcalls[0] in list(ast.walk(b)) for b in nd.body):
                guard_ok = True
        after = False
        for st_ in loops[0].body:
            if lcalls and lcalls[0] in list(ast.walk(st_)):
                after = True
            elif after and stmt_key(st_) == "last_secure = name":
                after = "linked"
        rep.check(len(lcalls) == 1 and guard_ok and after == "linked" and [src(a) for a in lcalls[0].args[:3]] == ["txn", "last_secure", "name"], "R-15.4", sz.qualname, where(sz, loops[0]),
                  "each secure name gets an NSEC pointing to the next secure name", "NSEC linking changed", stmt="linking")
    t = " ".join(src(szn).split())
    rep.check(pat.has_expr(szn, "_txn_add_nsec(txn, last_secure, zone.origin, ...)"), "R-15.4", sz.qualname, where(sz, sz.node),
              "the last name wraps to the origin", "the chain no longer wraps to the origin", stmt="wrap")
    an = model.func("dns.dnssec._sign_zone_nsec.<locals>._txn_add_nsec")
    comps = [c for c in ast.walk(an.node) if isinstance(c, (ast.ListComp, ast.SetComp, ast.GeneratorExp)) and len(c.generators) == 1 and src(c.generators[0].iter).endswith(".rdatasets")
             and isinstance(c.elt, ast.Attribute) and c.elt.attr == "rdtype" and src(c.elt.value) == src(c.generators[0].target)]
    mand = [x for x in ast.walk(an.node) if isinstance(x, ast.Assign) and isinstance(x.targets[0], ast.Name) and {"dns.rdatatype.RdataType.RRSIG", "dns.rdatatype.RdataType.NSEC"} <= {src(a) for a in ast.walk(x.value) if isinstance(a, ast.Attribute)}]
    from_types = [c for c in ast.walk(an.node) if isinstance(c, ast.Call) and src(c.func) == "Bitmap.from_rdtypes"]
    union_ok = len(comps) == 1 and len(mand) == 1 and any(isinstance(b, ast.BinOp) and isinstance(b.op, ast.BitOr) and comps[0] in list(ast.walk(b)) and src(mand[0].targets[0]) in {src(x) for x in ast.walk(b) if isinstance(x, ast.Name)}
                                                         for b in ast.walk(an.node))
    rep.check(union_ok and len(from_types) == 1, "R-15.4", an.qualname, where(an, an.node),
              "bitmap = types present at the node + RRSIG + NSEC", "NSEC type bitmap composition changed", stmt="bitmap")
    # ---------------------------------------------------------------- R-15.9
    from engine.minieval import evaluate as _ev9, Unsupported as _Un9
    if len(comps) == 1:
        gen9 = comps[0].generators[0]
        params9 = [a.arg for a in an.node.args.args]
        free9 = {x.id for i_ in gen9.ifs for x in ast.walk(i_) if isinstance(x, ast.Name)} & set(params9)
        if not gen9.ifs or len(free9) != 1:
            rep.bad("R-15.9", an.qualname, where(an, comps[0]), f"`{src(comps[0])[:70]}` takes every rdataset of the node, whatever the node is: the NSEC of a delegation point that also holds glue (`sub NS sub` / `sub A ...`) "
                    "lists A/AAAA, for which the parent is not authoritative (RFC 4035 2.3: those bits MUST be clear)", stmt="delegation-bitmap")
        else:
            P9 = next(iter(free9))
            fold9 = lambda nd: model.const(an.module, nd)  # noqa: E731
            env9 = {}
            for x in ast.walk(an.node):
                if isinstance(x, ast.Assign) and isinstance(x.targets[0], ast.Name) and isinstance(x.value, (ast.Tuple, ast.List, ast.Set)):
                    try:
                        env9[x.targets[0].id] = _ev9(x.value, {}, fold9)
                    except (_Un9, AnalysisError):
                        pass
            try:
                T9 = {k: int(model.const(an.module, ast.parse("dns.rdatatype.RdataType." + k, mode="eval").body)) for k in ("A", "NS", "TXT", "AAAA", "DS")}
                wrong9 = []
                for dg in (False, True):
                    for k, v in T9.items():
                        e9 = dict(env9)
                        e9[P9] = dg
                        e9[src(gen9.target) + ".rdtype"] = v
                        kept = all(bool(_ev9(i_, e9, fold9)) for i_ in gen9.ifs)
                        if kept != ((not dg) or k in ("NS", "DS")):
                            wrong9.append(f"{k} is {'kept' if kept else 'dropped'} when {P9}={dg}")
                rep.check(not wrong9, "R-15.9", an.qualname, where(an, comps[0]), f"type filter evaluated for {P9} in (False, True) x {sorted(T9)}: all types at ordinary names, NS and DS only at a delegation point",
                          f"the type filter of the NSEC bitmap is wrong: {'; '.join(wrong9[:3])}", stmt="delegation-bitmap")
            except (_Un9, AnalysisError) as e:
                rep.blind("R-15.9", an.qualname, where(an, comps[0]), f"type filter not evaluable: {e}", stmt="delegation-bitmap")
            idx9 = params9.index(P9)
            allcalls = [c for c in ast.walk(szn) if isinstance(c, ast.Call) and src(c.func) == "_txn_add_nsec"]
            for c9 in allcalls:
                a9 = c9.args[idx9] if len(c9.args) > idx9 else next((k.value for k in c9.keywords if k.arg == P9), None)
                if not isinstance(a9, ast.Name):
                    rep.bad("R-15.9", sz.qualname, where(sz, c9), f"`{src(c9)[:60]}` does not pass the delegation status of `{src(c9.args[1]) if len(c9.args) > 1 else '?'}` (parameter `{P9}`)", stmt="delegation-status " + ("wrap" if c9 not in list(ast.walk(loops[0])) else "link"))
                    continue
                D9 = a9.id
                defs9 = [x for x in ast.walk(szn) if isinstance(x, ast.Assign) and any(isinstance(t_, ast.Name) and t_.id == D9 for t_ in x.targets)]
                init9 = [x for x in defs9 if x in szn.body and isinstance(x.value, ast.Constant) and x.value.value is False]
                inloop9 = [x for x in defs9 if okk and x in loops[0].body]
                pos_call = next((i_ for i_, st_ in enumerate(loops[0].body) if any(c is cc for cc in ast.walk(st_) for c in allcalls if c in list(ast.walk(loops[0])))), -1) if okk else -1
                good9 = len(defs9) == 2 and len(init9) == 1 and len(inloop9) == 1 and loops[0].body.index(inloop9[0]) > pos_call >= 0 \
                    and {x.id for x in ast.walk(inloop9[0].value) if isinstance(x, ast.Name)} - {"bool"} == {"delegation"}
                rep.check(good9, "R-15.9", sz.qualname, where(sz, c9), f"`{D9}` is the delegation status of last_secure: False at first, then recorded from `delegation` after each NSEC is emitted",
                          f"`{D9}` is not (False before the walk, then set from the walk's `delegation` marker alone after the NSEC call): the NSEC of a name gets the bitmap filter of a different name",
                          stmt="delegation-status " + ("wrap" if c9 not in list(ast.walk(loops[0])) else "link"))
            rep.floor("R-15.9", len(allcalls), 2)
    # ---------------------------------------------------------------- R-15.10
    n10 = 0
    for f10 in sorted(model.all_functions(), key=lambda g: g.qualname):
        if f10.node.name not in ("to_wire", "_to_wire", "to_digestable") or "origin" not in f10.params() or not (f10.module.name.startswith("dns.rdtypes") or f10.module.name in ("dns.name", "dns.rdata", "dns.rdataset", "dns.rrset")):
            continue
        n10 += 1
        reb = [x for x in ast.walk(f10.node) if isinstance(x, ast.Name) and x.id == "origin" and isinstance(x.ctx, ast.Store)]
        if reb:
            rep.bad("R-15.10", f10.qualname, where(f10, reb[0]), "`origin` is rebound before it is used: the labels of the origin are emitted through a changed copy (e.g. canonicalize()d), so records whose embedded names must keep "
                    "their case (NSEC, HIP, LP, IPSECKEY ...) and that are stored relative get the origin's case folded in their canonical form - RRSIG input and ZONEMD digests differ from the RFC's", stmt="origin-rebound")
    rep.floor("R-15.10", n10, 60)
    rep.ok("R-15.10", "dns", "dns/", f"{n10} to_wire/_to_wire/to_digestable functions use the origin they were given", stmt="origin-not-rebound")
    # ---------------------------------------------------------------- R-15.11
    n11 = 0
    for f11 in sorted(model.all_functions(), key=lambda g: g.qualname):
        if f11.module.name != "dns.dnssec":
            continue
        params11 = set(f11.params())
        for lp11 in [x for x in ast.walk(f11.node) if isinstance(x, ast.For) and isinstance(x.iter, ast.Name) and x.iter.id in params11]:
            if not isinstance(lp11.target, ast.Name) or not any(isinstance(x, ast.Name) and x.id == lp11.target.id and isinstance(x.ctx, ast.Store) for st_ in lp11.body for x in ast.walk(st_)):
                continue  # the element is not normalised (rebound) in the loop: a filter or a mapping, not a normalised copy
            fills = {c.func.value.id for c in ast.walk(lp11) if isinstance(c, ast.Call) and isinstance(c.func, ast.Attribute) and c.func.attr in ("add", "append") and isinstance(c.func.value, ast.Name)
                     and c.func.value.id not in params11 and len(c.args) == 1 and isinstance(c.args[0], ast.Name) and c.args[0].id == lp11.target.id}
            empties = {t_.id for x in ast.walk(f11.node) if isinstance(x, ast.Assign) and x.lineno < lp11.lineno and ((isinstance(x.value, ast.Call) and dotted(x.value.func) in ("set", "list", "dict") and not x.value.args) or
                                                                                                                   (isinstance(x.value, (ast.List, ast.Set, ast.Dict)) and not getattr(x.value, "elts", getattr(x.value, "keys", []))))
                       for t_ in x.targets if isinstance(t_, ast.Name)}
            copies = sorted(fills & empties)
            if not copies:
                continue
            n11 += 1
            p11 = lp11.iter.id
            late = [x for x in ast.walk(f11.node) if isinstance(x, ast.Name) and x.id == p11 and isinstance(x.ctx, ast.Load) and x.lineno > lp11.end_lineno]
            rep.check(not late, "R-15.11", f11.qualname, where(f11, late[0] if late else lp11), f"`{p11}` is read only while its normalised copy is being built",
                      f"`{p11}` (the caller's raw value) is read after the loop that builds its normalised copy `{copies[0]}`: e.g. `digest_type in {p11}` never matches when the caller passed mnemonics, so DS records that the CDS RRset calls for are dropped",
                      stmt=f"normalised-copy of {p11}")
    rep.floor("R-15.11", n11, 1)
    # ---------------------------------------------------------------- R-15.12
    n12 = 0
    for f12 in sorted(model.all_functions(), key=lambda g: g.qualname):
        if f12.module.name != "dns.dnssec":
            continue
        params12 = set(f12.params())
        for nd in ast.walk(f12.node):
            if not isinstance(nd, ast.If):
                continue
            subj = [a_[0] for a_ in atoms(normalise_compare(nd.test)) if a_[1] == "is" and a_[2] == "None" and a_[0] in params12]
            if len(subj) != 1 or not any(isinstance(x, ast.Name) and x.id == subj[0] and isinstance(x.ctx, ast.Store) for b in nd.body for x in ast.walk(b)):
                continue
            n12 += 1
            work = [x for b in nd.body for x in ast.walk(b) if isinstance(x, (ast.For, ast.While, ast.AsyncFor)) or (isinstance(x, ast.Expr) and isinstance(x.value, (ast.Call, ast.Await)))]
            rep.check(not work, "R-15.12", f12.qualname, where(f12, work[0] if work else nd), f"`if {subj[0]} is None:` only computes the default",
                      f"`{stmt_key(work[0])[:60] if work else ''}` sits inside `if {subj[0]} is None:`: it runs only when the caller did not give `{subj[0]}` - with an explicit value the step is skipped (e.g. the DNSKEY RRset is never added, so the signed zone has no keys "
                      "and its apex NSEC lacks the DNSKEY bit)", stmt=f"defaulting {subj[0]}")
    rep.floor("R-15.12", n12, 2)
    rep.assume("hashlib digests and base64.b32encode are trusted; numeric results (key tags, digests, bitmap octets) are not computed")
    bm = model.func("dns.rdtypes.util.Bitmap.from_rdtypes")
    sl = [x for x in ast.walk(bm.node) if isinstance(x, ast.Subscript) and isinstance(x.slice, ast.Slice) and isinstance(x.slice.upper, ast.Name) and src(x.slice.lower or ast.Constant(0)) in ("0", "None")]
    lens = {x.slice.upper.id for x in sl}
    if len(lens) != 1:
        rep.blind("R-15.4", bm.qualname, where(bm, bm.node), f"window length variable of `bitmap[0:<n>]` not identified: {sorted(lens)}", stmt="window-length")
    else:
        L = lens.pop()
        sets_ = [n for n in ast.walk(bm.node) if isinstance(n, (ast.Assign, ast.AugAssign)) and src(n.targets[0] if isinstance(n, ast.Assign) else n.target) == L]
        carry = [n for n in sets_ if isinstance(n, ast.AugAssign) or any(isinstance(x, ast.Name) and x.id == L for x in ast.walk(n.value))]
        in_loop = [n for n in sets_ if any(any(y is n for y in ast.walk(lp_)) for lp_ in ast.walk(bm.node) if isinstance(lp_, ast.For))]
        rep.check(not carry and bool(in_loop), "R-15.4", bm.qualname, where(bm, carry[0] if carry else bm.node), f"the window length `{L}` is recomputed from the current type alone (types are sorted, so the last one of a window is its highest)",
                  f"`{src(carry[0])[:50]}` carries the window length over from earlier types: a later window inherits the length of a longer earlier one and the NSEC/NSEC3/CSYNC bitmap gets trailing zero octets "
                  "(forbidden by RFC 4034 4.1.2; the canonical form differs)" if carry else "the window length is not set per type", stmt="window-length")
    nc8 = model.func("dns.name.Name.canonicalize")
    rets8 = [r for r in ast.walk(nc8.node) if isinstance(r, ast.Return) and r.value is not None]
    good8 = [r for r in rets8 if pat.match(pat.parse_expr("Name([__x.lower() for __x in self.labels])"), r.value, pat.Env())]
    rep.check(bool(rets8) and len(good8) == len(rets8), "R-15.8", nc8.qualname, where(nc8, next((r for r in rets8 if r not in good8), nc8.node)), "every path returns Name([x.lower() for x in self.labels])",
              f"canonicalize has a return that is not `Name([x.lower() for x in self.labels])` (`{src(next((r for r in rets8 if r not in good8), nc8.node))[:50]}`): names that reach it unfolded make DS digests, "
              "NSEC3 hashes and signing input differ from the RFC values", stmt="canonicalize-folds")
    rep.share(model, "C06", {"R-06.2"}, "R-15.7", "the NSEC chain and the ZONEMD record order are the canonical name order computed by Name.fullcompare")
    rep.share(model, "C07", {"R-07.3", "R-07.7"}, "R-15.7", "_make_rrsig_signature_data and compute_digest iterate rdatasets (hash-deduplicated); sign_zone adds NSEC records with txn.add (union into the stored rdataset)")
    from rules.common import mixed_presence_tests
    mixed_presence_tests(model, rep, "R-15.6", {"dns.dnssec"}, "a name-or-None marker of the zone signer",
                         "the empty name, i.e. the apex of a relativized zone, is falsy: a zone with only the apex gets no NSEC at all", 3)
    rep.meta["explanation"] = (
        "Per-type dataflow of the `canonicalize`/`compress` parameters of _to_wire (through super() chains and helper codecs) into every embedded-name encoder call, compared with the "
        "RFC 4034 6.2 / RFC 6840 5.1 table held in the checker; plus ordered composition checks of the RRSIG signing input, DS, NSEC3 and ZONEMD digests and of the NSEC walk. "
        "tests/test_dnssec.py is not in the offline baseline, so these rules are the only guard on dns/dnssec.py.")


WITNESSES = [
    {"id": "c15-twin-dnskeys-added-from-a-list", "rule": "R-15.12", "file": "dns/dnssec.py", "expect": "silent",
     "old": "            for _, dnskey in keys:\n                _txn.add(zone.origin, dnskey_ttl, dnskey)", "new": "            dnskeys = [k[1] for k in keys]\n            for dnskey in dnskeys:\n                _txn.add(zone.origin, dnskey_ttl, dnskey)"},
    {"id": "c15-dnskeys-added-only-when-ttl-defaulted", "rule": "R-15.12", "file": "dns/dnssec.py", "expect": "fires",
     "old": "            for _, dnskey in keys:\n                _txn.add(zone.origin, dnskey_ttl, dnskey)", "new": "                for _, dnskey in keys:\n                    _txn.add(zone.origin, dnskey_ttl, dnskey)"},
    {"id": "c15-nsec-bitmap-ignores-delegation", "rule": "R-15.9", "file": "dns/dnssec.py", "expect": "fires",
     "old": "                        if not delegated or rdataset.rdtype in delegation_types\n", "new": ""},
    {"id": "c15-nsec-bitmap-filter-drops-ds", "rule": "R-15.9", "file": "dns/dnssec.py", "expect": "fires",
     "old": "        delegation_types = (dns.rdatatype.RdataType.NS, dns.rdatatype.RdataType.DS)", "new": "        delegation_types = (dns.rdatatype.RdataType.NS,)"},
    {"id": "c15-nsec-delegation-status-of-next-name", "rule": "R-15.9", "file": "dns/dnssec.py", "expect": "fires",
     "old": "                last_delegated,\n            )\n        last_secure = name\n", "new": "                bool(delegation),\n            )\n        last_secure = name\n"},
    {"id": "c15-twin-nsec-filter-spelled-inline", "rule": "R-15.9", "file": "dns/dnssec.py", "expect": "silent",
     "old": "                        if not delegated or rdataset.rdtype in delegation_types\n", "new": "                        if (not delegated) or rdataset.rdtype in (dns.rdatatype.RdataType.DS, dns.rdatatype.RdataType.NS)\n"},
    {"id": "c15-digestable-folds-origin", "rule": "R-15.10", "file": "dns/rdata.py", "expect": "fires",
     "old": "        wire = self.to_wire(origin=origin, canonicalize=True)\n        assert wire is not None  # for mypy\n        return wire", "new": "        if origin is not None:\n            origin = origin.canonicalize()\n        wire = self.to_wire(origin=origin, canonicalize=True)\n        assert wire is not None  # for mypy\n        return wire"},
    {"id": "c15-cds-filter-reads-raw-algorithms", "rule": "R-15.11", "file": "dns/dnssec.py", "expect": "fires",
     "old": "            if rdata.digest_type in _algorithms:", "new": "            if rdata.digest_type in algorithms:"},
    {"id": "c15-twin-cds-filter-local-alias", "rule": "R-15.11", "file": "dns/dnssec.py", "expect": "silent",
     "old": "            if rdata.digest_type in _algorithms:", "new": "            wanted = _algorithms\n            if rdata.digest_type in wanted:"},
    {"id": "c15-canonicalize-shortcut-isupper", "rule": "R-15.8", "file": "dns/name.py", "expect": "fires",
     "old": "        return Name([x.lower() for x in self.labels])", "new": "        if not any(x.isupper() for x in self.labels):\n            return self\n        return Name([x.lower() for x in self.labels])"},
    {"id": "c15-last-secure-truth-tested", "rule": "R-15.6", "file": "dns/dnssec.py", "expect": "fires",
     "old": "    if last_secure is not None:\n        _txn_add_nsec(\n", "new": "    if last_secure:\n        _txn_add_nsec(\n"},
    {"id": "c15-bitmap-window-length-carried-over", "rule": "R-15.4", "file": "dns/rdtypes/util.py", "expect": "fires",
     "old": "            octets = byte + 1", "new": "            octets = max(octets, byte + 1)"},
    {"id": "c15-origin-labels-not-folded", "rule": "R-15.5", "file": "dns/name.py", "expect": "fires",
     "old": "                for label in origin.labels:\n                    out.append(len(label))\n                    if canonicalize:\n                        out += label.lower()\n                    else:\n                        out += label\n",
     "new": "                out += origin.to_wire()\n"},
    {"id": "c15-twin-origin-nested-canonical", "rule": "R-15.5", "file": "dns/name.py", "expect": "silent",
     "old": "                for label in origin.labels:\n                    out.append(len(label))\n                    if canonicalize:\n                        out += label.lower()\n                    else:\n                        out += label\n",
     "new": "                out += origin.to_wire(canonicalize=canonicalize)\n"},
    {"id": "c15-file-branch-raw-label", "rule": "R-15.5", "file": "dns/name.py", "expect": "fires",
     "old": "                    if canonicalize:\n                        file.write(label.lower())\n                    else:\n                        file.write(label)", "new": "                    file.write(label)"},
    {"id": "c15-lp-lowercased", "rule": "R-15.1", "file": "dns/rdtypes/ANY/LP.py", "expect": "fires",
     "old": "self.fqdn.to_wire(file, None, origin, False)", "new": "self.fqdn.to_wire(file, None, origin, canonicalize)"},
    {"id": "c15-nsec-lowercased", "rule": "R-15.1", "file": "dns/rdtypes/ANY/NSEC.py", "expect": "fires",
     "old": "self.next.to_wire(file, None, origin, False)", "new": "self.next.to_wire(file, None, origin, canonicalize)"},
    {"id": "c15-rp-txt-not-lowercased", "rule": "R-15.1", "file": "dns/rdtypes/ANY/RP.py", "expect": "fires",
     "old": "self.txt.to_wire(file, None, origin, canonicalize)", "new": "self.txt.to_wire(file, None, origin, False)"},
    {"id": "c15-kx-base-not-downcasing", "rule": "R-15.1", "file": "dns/rdtypes/mxbase.py", "expect": "fires",
     "old": "        super()._to_wire(file, None, origin, canonicalize)", "new": "        super()._to_wire(file, None, origin, False)"},
    {"id": "c15-nsec3-hash-no-canon", "rule": "R-15.3", "file": "dns/dnssec.py", "expect": "fires",
     "old": "domain_encoded = domain.canonicalize().to_wire()", "new": "domain_encoded = domain.to_wire()"},
    {"id": "c15-rrsig-unsorted", "rule": "R-15.3", "file": "dns/dnssec.py", "expect": "fires",
     "old": "    for rdata in sorted(rdatas):\n        data += rrnamebuf", "new": "    for rdata in rdatas:\n        data += rrnamebuf"},
    {"id": "c15-ds-noncanonical-owner", "rule": "R-15.3", "file": "dns/dnssec.py", "expect": "fires",
     "old": "    wire = name.canonicalize().to_wire()", "new": "    wire = name.to_wire()"},
    {"id": "c15-rrsig-current-ttl", "rule": "R-15.3", "file": "dns/dnssec.py", "expect": "fires",
     "old": "rrfixed = struct.pack(\"!HHI\", rdataset.rdtype, rdataset.rdclass, rrsig.original_ttl)", "new": "rrfixed = struct.pack(\"!HHI\", rdataset.rdtype, rdataset.rdclass, rdataset.ttl)"},
    {"id": "c15-zonemd-keeps-apex-zonemd", "rule": "R-15.3", "file": "dns/zone.py", "expect": "fires",
     "old": "                if name == origin_name and dns.rdatatype.ZONEMD in (\n                    rdataset.rdtype,\n                    rdataset.covers,\n                ):\n                    continue\n", "new": ""},
    {"id": "c15-nsec-walk-unsorted", "rule": "R-15.4", "file": "dns/dnssec.py", "expect": "fires",
     "old": "    for name in sorted(txn.iterate_names()):", "new": "    for name in txn.iterate_names():"},
    {"id": "c15-digestable-compressed", "rule": "R-15.2", "file": "dns/rdata.py", "expect": "fires",
     "old": "        wire = self.to_wire(origin=origin, canonicalize=True)\n        assert wire is not None  # for mypy", "new": "        wire = self.to_wire(None, {}, origin, True)\n        assert wire is not None  # for mypy"},
    {"id": "c15-twin-keyword-call", "rule": "R-15.1", "file": "dns/rdtypes/ANY/DNAME.py", "expect": "silent",
     "old": "self.target.to_wire(file, None, origin, canonicalize)", "new": "self.target.to_wire(file, None, origin, canonicalize=canonicalize)"},
]
