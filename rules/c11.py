"""C11 snapshot immutability (mutator surface), freezing at commit, frozen views on reads, retention."""
from __future__ import annotations

import ast

from engine.cfg import CFG, normalise_compare, atoms, A
from engine.effects import WriteSets, CONTAINER_MUTATORS, always_raises
from engine.model import src, stmt_key, dotted, AnalysisError
from engine import pat
from engine.util import calls_with_nodes, where, own_nodes

RULES = {
    "R-11.8": "a transaction reads ITS version: the data primitives of dns.zone.Transaction (_get_rdataset, _get_node, _name_exists, _iterate_names, _iterate_rdatasets, _put_rdataset, _delete_name, _delete_rdataset) use self.version and never the zone object (self.zone / self.manager), whose node map is re-pointed to the newest version by every commit",
    "R-11.7": "retention decisions are atomic with respect to readers: every access to the version list, the reader set and the pruning policy sits under the version lock (C12 R-12.1 adopted), so a version cannot be pruned between a reader choosing it and registering",
    "R-11.6": "a committed version freezes every node the transaction touched: `changed` holds the validated map keys (C10 R-10.2 adopted) and copy-on-write records every fresh node (C10 R-10.5 adopted), so ImmutableVersion finds and freezes each of them",
    "R-11.5": "snapshot isolation of B-tree zones rests on copy-on-write ownership in dns/btree.py (C19 R-19.1), and immutable rdatasets rest on dns.immutable.Dict copying its source (C07 R-07.8): both are adopted",
    "R-11.1": "every method with a non-empty write set is, in each immutable subclass, overridden by a raising body or blocked by construction (field rebound to a frozen container lacking the operation; class is @immutable)",
    "R-11.2": "ImmutableVersion freezes changed nodes and the map (and delegations); every version published by a versioned zone comes from the immutable factory",
    "R-11.3": "reads hand out frozen views (Transaction.get/get_node, versioned.Zone.find/get_rdataset); legacy zone mutators raise or are blocked",
    "R-11.4": "_versions changes only by append/popleft; pruning is bounded by the least reader id else the newest id; ids are last+1; readers register/unregister under the lock",
}

IMMUTABLE_CLASSES = [
    "dns.rdataset.ImmutableRdataset",
    "dns.node.ImmutableNode",
    "dns.zone.ImmutableVersionedNode",
    "dns.btreezone.ImmutableNode",
    "dns.zone.ImmutableVersion",
    "dns.btreezone.ImmutableVersion",
]
# abstract Mapping mixin methods (collections.abc.Mapping) – none mutates
MAPPING_MIXINS = {"__contains__", "keys", "items", "values", "get", "__eq__", "__ne__"}


def _frozen_kind(model, ci, field):
    """How the immutable class binds `field` in its own __init__: 'Dict' | 'tuple' | None."""
    init = ci.methods.get("__init__")
    if init is None:
        return None, None
    kinds = []
    for n in ast.walk(init.node):
        if isinstance(n, ast.Assign):
            for t in n.targets:
                if isinstance(t, ast.Attribute) and src(t.value) == "self" and t.attr == field:
                    v = n.value
                    while isinstance(v, ast.Call) and dotted(v.func) == "cast" and len(v.args) == 2:
                        v = v.args[1]
                    if isinstance(v, ast.Call):
                        tgt = model.resolve_expr(init, v.func)
                        if tgt == "dns.immutable.Dict":
                            kinds.append(("Dict", n))
                        elif dotted(v.func) == "tuple":
                            kinds.append(("tuple", n))
                        else:
                            kinds.append((None, n))
                    else:
                        kinds.append((None, n))
    if not kinds:
        return None, None
    # the LAST binding in __init__ decides (super().__init__ may have bound a mutable default first)
    return kinds[-1]


def _dict_ops(model):
    d = model.cls("dns.immutable.Dict")
    ops = set(d.methods) | MAPPING_MIXINS
    ext = [b for b in d.external_bases]
    return ops, ext, d


def run(model, rep, tier):
    ws = WriteSets(model)
    dict_ops, dict_ext, dcls = _dict_ops(model)
    # the frozen dictionary itself: no mutator defined, only Mapping as base, decorated immutable
    bad_ops = sorted((set(dcls.methods) & CONTAINER_MUTATORS) - {"__init__"})
    rep.check(not bad_ops, "R-11.1", dcls.qualname, where(dcls.methods["__init__"], dcls.node), "dns.immutable.Dict defines no mutating method",
              f"dns.immutable.Dict defines mutating method(s) {bad_ops}", stmt="Dict-surface")
    rep.check(all((b or "").endswith("Mapping") and "Mutable" not in (b or "") for b in dict_ext) and bool({"dns.immutable.immutable", "dns._immutable_ctx.immutable"} & {model.resolve_dotted(dcls.module, d) for d in dcls.decorators()}),
              "R-11.1", dcls.qualname, dcls.file, "Dict derives from collections.abc.Mapping only and is @immutable",
              f"Dict bases {dict_ext} / decorators {dcls.decorators()} no longer guarantee a read-only mapping", stmt="Dict-bases")
    imm = model.cls("dns._immutable_ctx._Immutable")
    for mname in ("__setattr__", "__delattr__"):
        f = imm.methods.get(mname)
        okk = False
        if f is not None:
            cfg = CFG(f.node, implicit_exc=False)
            tests = [n for n in cfg.nodes if n.kind == "test"]
            raises = [n for n in cfg.nodes if isinstance(n.ast, ast.Raise)]
            sup = [n for (n, c) in calls_with_nodes(cfg) if src(c.func).startswith("super().")]
            okk = len(tests) == 1 and atoms(normalise_compare(tests[0].ast.test)) == [("_in__init__.get()", "is not", "self")] and len(raises) == 1 \
                and cfg.edge_dominated(raises[0].id, {(tests[0].id, "t")}) and all(cfg.edge_dominated(s.id, {(tests[0].id, "f")}) for s in sup)
        rep.check(okk, "R-11.1", f"{imm.qualname}.{mname}", imm.file, "raises unless the object is inside its own __init__ (token is the instance)",
                  f"_Immutable.{mname} no longer raises for every object other than the one being initialised", stmt="immutable-guard")
    deco = model.func("dns._immutable_ctx.immutable")
    rep.check("_immutable_init(cls.__init__)" in src(deco.node) and "class ncls(_Immutable, cls)" in src(deco.node), "R-11.1", deco.qualname, where(deco, deco.node),
              "decorator mixes _Immutable in front of the class and wraps __init__", "immutable decorator no longer mixes in _Immutable first", stmt="decorator-shape")
    n_surface = 0
    for cq in IMMUTABLE_CLASSES:
        ci = model.cls(cq)
        decos = [model.resolve_dotted(ci.module, d) for d in ci.decorators()]
        is_imm = "dns.immutable.immutable" in decos or "dns._immutable_ctx.immutable" in decos
        rep.check(is_imm, "R-11.1", cq, f"{ci.file}:{ci.node.lineno}", "class is @dns.immutable.immutable", "class lost @dns.immutable.immutable: attributes can be rebound", stmt="decorator")
        for name in ws.all_method_names(ci):
            if name in ("__init__", "__setstate__"):
                continue
            f = model.lookup_method(ci, name)
            base_writes = None
            # is it a mutator anywhere up the chain?
            mut_in_base = False
            for c in ci.mro[1:]:
                if name in c.methods and ws.writes(c, name):
                    mut_in_base = True
            w = ws.writes(ci, name)
            if not w and not mut_in_base:
                continue
            n_surface += 1
            con = f"{cq}.{name}"
            if not w:
                how = "overridden by a raising body" if always_raises(f) else "resolved body writes nothing in this class"
                rep.ok("R-11.1", con, where(f, f.node), f"mutator of a base class; here: {how}", stmt="surface")
                continue
            problems = []
            for x in w:
                if x.kind == "rebind":
                    if not is_imm:
                        problems.append(f"{x.short()} – class is not @immutable")
                else:
                    kind, at = _frozen_kind(model, ci, x.field)
                    if kind == "Dict":
                        if x.op in dict_ops:
                            problems.append(f"{x.short()} – dns.immutable.Dict supports {x.op}")
                    elif kind == "tuple":
                        if hasattr(tuple, x.op):
                            problems.append(f"{x.short()} – tuple supports {x.op}")
                    else:
                        problems.append(f"{x.short()} – field self.{x.field} is not rebound to a frozen container in {cq}.__init__")
            if problems:
                rep.bad("R-11.1", con, where(f, f.node), "mutator reachable on a snapshot: " + "; ".join(problems[:3]), stmt="surface")
            else:
                rep.ok("R-11.1", con, where(f, f.node),
                       "not overridden, blocked by construction: " + ", ".join(sorted({f'self.{x.field}.{x.op}' if x.kind == 'mutate' else f'self.{x.field}=' for x in w})), stmt="surface")
    rep.floor("R-11.1", n_surface, 30)

    # ------------------------------------------------------------------ R-11.2
    for cq, node_cls in (("dns.zone.ImmutableVersion", "ImmutableVersionedNode"), ("dns.btreezone.ImmutableVersion", "ImmutableNode")):
        f = model.func(f"{cq}.__init__")
        t = src(f.node)
        loops = [n for n in ast.walk(f.node) if isinstance(n, ast.For) and src(n.iter) == "version.changed"]
        wrapped = any(isinstance(s, ast.Assign) and src(s.targets[0]) == "version.nodes[name]" and src(s.value) == f"{node_cls}(node)" for l in loops for s in ast.walk(l))
        rep.check(bool(loops) and wrapped, "R-11.2", f.qualname, where(f, f.node), f"every changed node is replaced by {node_cls}(node)",
                  "changed nodes are not all wrapped in immutable nodes at commit", stmt="wrap-changed")
        cfg = CFG(f.node, implicit_exc=False)
        if cq.startswith("dns.zone"):
            frozen = [n.id for n in cfg.nodes if isinstance(n.ast, ast.Assign) and src(n.ast.targets[0]) == "self.nodes" and src(n.ast.value).startswith("dns.immutable.Dict(version.nodes, True")]
            rep.check(bool(frozen) and cfg.dominated_by_set(cfg.exit.id, frozen), "R-11.2", f.qualname, where(f, f.node), "the map is wrapped in dns.immutable.Dict on every path",
                      "the node map of a committed version is not wrapped in dns.immutable.Dict", stmt="freeze-map")
        else:
            for fld in ("nodes", "delegations"):
                gate = [n.id for n in cfg.nodes if isinstance(n.ast, ast.Expr) and src(n.ast) == f"self.{fld}.make_immutable()"]
                rep.check(bool(gate) and cfg.dominated_by_set(cfg.exit.id, gate), "R-11.2", f.qualname, where(f, f.node), f"self.{fld}.make_immutable() on every path",
                          f"committed B-tree version does not freeze self.{fld}", stmt=f"freeze-{fld}")
        guard = [n for n in cfg.nodes if n.kind == "test" and "isinstance(version, WritableVersion)" in src(n.ast.test)]
        rep.check(bool(guard), "R-11.2", f.qualname, where(f, f.node), "accepts only a WritableVersion", "type guard on the source version is gone", stmt="source-guard")
    # freeze completeness: ImmutableVersion only wraps names recorded in `changed`, so every fresh (mutable) node a
    # writable version creates must be recorded there on every path
    n_fresh = 0
    for cq in ("dns.zone.WritableVersion", "dns.btreezone.WritableVersion"):
        ci = model.cls(cq)
        for mname, f in sorted(ci.methods.items()):
            cfgf = CFG(f.node, implicit_exc=False)
            fresh = [n for n in cfgf.nodes if isinstance(n.ast, ast.Assign) and isinstance(n.ast.value, ast.Call) and src(n.ast.value.func).endswith("node_factory")]
            adds = [n.id for (n, c) in calls_with_nodes(cfgf) if src(c.func) == "self.changed.add"]
            for fr in fresh:
                n_fresh += 1
                rep.check(bool(adds) and cfgf.postdominated_by_set(fr.id, adds), "R-11.2", f.qualname, where(f, fr.ast),
                          "a freshly created node is always recorded in `changed` (so commit freezes it)",
                          "a fresh mutable node is stored without recording its name in `changed`: the committed snapshot keeps a mutable node", stmt="fresh-node-recorded")
    rep.floor("R-11.2-fresh", n_fresh, 2)
    # versioned zone: every published version is immutable
    vz = model.cls("dns.versioned.Zone")
    n_pub = 0
    for name, f in vz.methods.items():
        cfg = CFG(f.node)
        for (n, c) in calls_with_nodes(cfg):
            if isinstance(c.func, ast.Attribute) and c.func.attr in ("_commit_version_unlocked", "_commit_version") and src(c.func.value) == "self":
                n_pub += 1
                arg = c.args[1] if len(c.args) > 1 else None
                okk, why = _is_immutable_version_expr(model, f, arg)
                rep.check(okk, "R-11.2", f.qualname, where(f, c), f"published version is {why}", f"a version that is {why} is published: readers can see later changes", stmt=f"publish {src(arg) if arg is not None else ''}")
        for (n, c) in calls_with_nodes(cfg):
            if src(c.func) == "Transaction" and name == "writer":
                mk = [k for k in c.keywords if k.arg == "make_immutable"]
                okk = (mk and isinstance(mk[0].value, ast.Constant) and mk[0].value.value is True) or (len(c.args) >= 4 and src(c.args[3]) == "True")
                rep.check(bool(okk), "R-11.2", f.qualname, where(f, c), "write transactions are created with make_immutable=True",
                          "versioned write transaction without make_immutable=True commits a mutable version", stmt="make_immutable")
    rep.floor("R-11.2-publish", n_pub, 2)
    et = model.func("dns.zone.Transaction._end_transaction")
    cfg = CFG(et.node, implicit_exc=False)
    tests = [n for n in cfg.nodes if n.kind == "test" and atoms(normalise_compare(n.ast.test)) == [("self.make_immutable", "truthy", "")]]
    fac = [n for n in cfg.nodes if isinstance(n.ast, ast.Assign) and src(n.ast) == "version = factory(self.version)"]
    facdef = [src(n.value) for n in ast.walk(et.node) if isinstance(n, ast.Assign) and src(n.targets[0]) == "factory"]
    okk = len(tests) == 1 and len(fac) == 1 and cfg.edge_dominated(fac[0].id, {(tests[0].id, "t")}) and \
        set(facdef) == {"self.manager.immutable_version_factory", "ImmutableVersion"}
    commit_nodes = [n for (n, c) in calls_with_nodes(cfg) if isinstance(c.func, ast.Attribute) and c.func.attr == "_commit_version"]
    if okk and commit_nodes:
        # on the make_immutable side the committed `version` must be the factory result
        r = cfg.reachable([cfg.entry.id], blocked=[fac[0].id], blocked_edges={(tests[0].id, "f")})
        okk = not any(cn.id in r for cn in commit_nodes)
    rep.check(bool(okk), "R-11.2", et.qualname, where(et, et.node), "with make_immutable the committed version is immutable_version_factory(version)",
              "with make_immutable set the committed version is not the immutable factory's result", stmt="commit-immutable")

    # ------------------------------------------------------------------ R-11.3
    for qn, wrapper in (("dns.transaction.Transaction.get", "_ensure_immutable_rdataset"), ("dns.transaction.Transaction.get_node", "_ensure_immutable_node")):
        f = model.func(qn)
        rets = [n for n in ast.walk(f.node) if isinstance(n, ast.Return)]
        okk = bool(rets) and all(isinstance(r.value, ast.Call) and src(r.value.func) == wrapper for r in rets)
        rep.check(okk, "R-11.3", qn, where(f, f.node), f"every return goes through {wrapper}()", f"a return of {qn} bypasses {wrapper}(): callers get a mutable object of the snapshot", stmt="frozen-return")
    for qn, cls_, test in (("dns.transaction._ensure_immutable_rdataset", "dns.rdataset.ImmutableRdataset", "isinstance(rdataset, dns.rdataset.ImmutableRdataset)"),
                           ("dns.transaction._ensure_immutable_node", "dns.node.ImmutableNode", "node.is_immutable()")):
        f = model.func(qn)
        cfg = CFG(f.node, implicit_exc=False)
        rets = [n for n in cfg.nodes if isinstance(n.ast, ast.Return)]
        okk = True
        for r in rets:
            v = r.ast.value
            if isinstance(v, ast.Call) and src(v.func) == cls_:
                continue
            # returning the argument unchanged is allowed only on the "is None or already immutable" side
            tests = [n for n in cfg.nodes if n.kind == "test"]
            okk = okk and len(tests) == 1 and normalise_compare(tests[0].ast.test)[0] == "or" and \
                {a[0] for a in atoms(normalise_compare(tests[0].ast.test))} == {src(v), test} and cfg.edge_dominated(r.id, {(tests[0].id, "t")})
        rep.check(okk and bool(rets), "R-11.3", qn, where(f, f.node), "returns the argument only when it is None or already immutable, else wraps it",
                  "helper can return a mutable object unchanged", stmt="ensure-shape")
    for mname in ("find_rdataset", "get_rdataset"):
        f = vz.methods.get(mname)
        if f is None:
            rep.bad("R-11.3", f"dns.versioned.Zone.{mname}", vz.file, "override missing: the base method returns the snapshot's mutable rdataset", stmt="frozen-return")
            continue
        rets = [n for n in ast.walk(f.node) if isinstance(n, ast.Return)]
        okk = all((isinstance(r.value, ast.Call) and src(r.value.func) == "dns.rdataset.ImmutableRdataset") or (isinstance(r.value, ast.Constant) and r.value.value is None) for r in rets)
        rep.check(okk and bool(rets), "R-11.3", f.qualname, where(f, f.node), "returns ImmutableRdataset(...) or None", "returns an unwrapped rdataset", stmt="frozen-return")
    # legacy mutators of the versioned zone: raising override or blocked by the frozen map
    zone = model.cls("dns.zone.Zone")
    n_leg = 0
    for name in ws.all_method_names(vz):
        f = model.lookup_method(vz, name)
        if f is None or f.cls is None or name.startswith("_") and name not in ("__setitem__", "__delitem__"):
            continue
        wz = [x for x in ws.writes(zone, name) if x.field == "nodes" and x.kind == "mutate"]
        if not wz:
            continue
        n_leg += 1
        w = [x for x in ws.writes(vz, name) if x.field == "nodes"]
        con = f"dns.versioned.Zone.{name}"
        if f.cls.qualname == "dns.versioned.Zone":
            # override: paths that can still reach the base mutator must be guarded by a raise under `create`
            cfg = CFG(f.node, implicit_exc=False)
            if always_raises(f):
                rep.ok("R-11.3", con, where(f, f.node), "legacy mutator overridden: always raises UseTransaction", stmt="legacy")
                continue
            tests = [n for n in cfg.nodes if n.kind == "test" and atoms(normalise_compare(n.ast.test)) == [("create", "truthy", "")]]
            raises = [n for n in cfg.nodes if isinstance(n.ast, ast.Raise)]
            sup_calls = [c for c in ast.walk(f.node) if isinstance(c, ast.Call) and src(c.func).startswith("super().")]
            passes_create = any(any(src(a) == "create" for a in list(c.args) + [k.value for k in c.keywords]) for c in sup_calls)
            okk = len(tests) == 1 and raises and cfg.edge_dominated(raises[0].id, {(tests[0].id, "t")}) and not passes_create and \
                cfg.dominated_by_set(cfg.exit.id, [tests[0].id])
            rep.check(bool(okk), "R-11.3", con, where(f, f.node), "override raises when create is requested and never forwards create",
                      "override lets a creating/mutating call through to the base zone method", stmt="legacy")
        else:
            blocked = all(x.op not in dict_ops for x in w)
            rep.check(blocked, "R-11.3", con, where(f, f.node),
                      "not overridden; blocked because the published map is a frozen dns.immutable.Dict / frozen B-tree (R-11.2, R-19.2): " + ", ".join(sorted({x.op for x in w})),
                      "inherited zone mutator works on the published snapshot: " + ", ".join(sorted({x.op for x in w if x.op in dict_ops})), stmt="legacy")
    rep.floor("R-11.3-legacy", n_leg, 6)

    # ------------------------------------------------------------------ R-11.4
    n_v = 0
    for fi in model.all_functions():
        for n in ast.walk(fi.node):
            if isinstance(n, ast.Call) and isinstance(n.func, ast.Attribute) and isinstance(n.func.value, ast.Attribute) and n.func.value.attr == "_versions":
                n_v += 1
                rep.check(n.func.attr in ("append", "popleft"), "R-11.4", fi.qualname, where(fi, n), f"_versions.{n.func.attr}",
                          f"_versions.{n.func.attr}() – retained versions would no longer be a contiguous run ending at the newest", stmt=f"_versions.{n.func.attr}")
            if isinstance(n, (ast.Subscript,)) and isinstance(n.ctx, (ast.Store, ast.Del)) and isinstance(n.value, ast.Attribute) and n.value.attr == "_versions":
                rep.bad("R-11.4", fi.qualname, where(fi, n), "_versions modified by subscript", stmt="_versions[...]")
    rep.floor("R-11.4", n_v, 2)
    pr = model.func("dns.versioned.Zone._prune_versions_unlocked")
    cfg = CFG(pr.node, implicit_exc=False)
    loops = [n for n in cfg.nodes if n.kind == "test" and isinstance(n.ast, ast.While)]
    okk = False
    if len(loops) == 1:
        norm = normalise_compare(loops[0].ast.test)
        at = atoms(norm)
        okk = norm[0] == "and" and A("self._versions[0].id", "<", "least_kept") in at and any("_pruning_policy" in a[0] for a in at)
        pops = [n for n in cfg.nodes if isinstance(n.ast, ast.Expr) and src(n.ast) == "self._versions.popleft()"]
        okk = okk and len(pops) == 1 and cfg.edge_dominated(pops[0].id, {(loops[0].id, "t")})
    rep.check(okk, "R-11.4", pr.qualname, where(pr, pr.node), "prunes the oldest version only while `_versions[0].id < least_kept and policy(...)`",
              "prune loop is not bounded by `_versions[0].id < least_kept` (a pinned or the newest version can be dropped)", stmt="prune-loop")
    lk = [n for n in ast.walk(pr.node) if isinstance(n, ast.Assign) and src(n.targets[0]) == "least_kept"]
    vals = sorted(" ".join(src(n.value).split()) for n in lk)
    okk = len(lk) == 2 and any(v.startswith("min(") and "for txn in self._readers" in v and ".id" in v for v in vals) and "self._versions[-1].id" in vals
    tests = [n for n in cfg.nodes if n.kind == "test" and isinstance(n.ast, ast.If)]
    okk = okk and len(tests) == 1 and atoms(normalise_compare(tests[0].ast.test)) == [("len(self._readers)", ">", "0")]
    if okk:
        mn = [n for n in cfg.nodes if isinstance(n.ast, ast.Assign) and src(n.ast.targets[0]) == "least_kept" and src(n.ast.value).startswith("min(")]
        okk = cfg.edge_dominated(mn[0].id, {(tests[0].id, "t")})
    rep.check(okk, "R-11.4", pr.qualname, where(pr, pr.node), "least_kept = min(reader version ids) if any reader else newest id",
              "least_kept is no longer (min over open readers, else the newest version id)", stmt="least-kept")
    gi = model.func("dns.versioned.Zone._get_next_version_id")
    vals = [src(n.value) for n in ast.walk(gi.node) if isinstance(n, ast.Assign) and src(n.targets[0]) == "id"]
    rep.check(sorted(vals) == ["1", "self._versions[-1].id + 1"], "R-11.4", gi.qualname, where(gi, gi.node), "next id = newest id + 1 (1 for the first)",
              f"version ids are computed as {vals}: not strictly increasing by construction", stmt="next-id")
    rd = model.func("dns.versioned.Zone.reader")
    cfg = CFG(rd.node, implicit_exc=False)
    adds = [n for n in cfg.nodes if isinstance(n.ast, ast.Expr) and src(n.ast) == "self._readers.add(txn)"]
    rets = [n for n in cfg.nodes if isinstance(n.ast, ast.Return)]
    okk = len(adds) == 1 and all(cfg.dominated_by_set(r.id, [adds[0].id]) for r in rets) and any("self._version_lock" == src(w.context_expr) for w in adds[0].withs)
    txns = [n for n in cfg.nodes if isinstance(n.ast, ast.Assign) and src(n.ast) == "txn = Transaction(self, False, version)"]
    okk = okk and len(txns) == 1 and any("self._version_lock" == src(w.context_expr) for w in txns[0].withs)
    rep.check(okk, "R-11.4", rd.qualname, where(rd, rd.node), "the reader picks its version and registers in _readers inside one lock hold",
              "reader is returned without being registered under the same lock hold that chose its version (version can be pruned underneath)", stmt="register-reader")
    er = model.func("dns.versioned.Zone._end_read")
    t = [stmt_key(s) for s in ast.walk(er.node) if isinstance(s, ast.Expr)]
    rep.check("self._readers.remove(txn)" in t and "self._prune_versions_unlocked()" in t, "R-11.4", er.qualname, where(er, er.node), "ending a read unregisters and prunes",
              "ending a read does not (unregister the reader and prune)", stmt="end-read")
    for qn, what in (("dns.versioned.Zone._end_read", "closing a reader"), ("dns.versioned.Zone._commit_version_unlocked", "a commit")):
        fp = model.func(qn)
        cp = CFG(fp.node, implicit_exc=False)
        prunes = [n.id for (n, c) in calls_with_nodes(cp) if src(c.func) == "self._prune_versions_unlocked"]
        rep.check(bool(prunes) and cp.dominated_by_set(cp.exit.id, prunes), "R-11.4", qn, where(fp, fp.node), f"{what} always runs the pruner",
                  f"{what} can finish without running _prune_versions_unlocked() (it is missing or conditional): versions no reader pins and the policy does not keep stay retained - and openable by id - "
                  "until some later event", stmt="always-prunes")
    # ---------------------------------------------------------------- R-11.8
    zt = model.cls("dns.zone.Transaction")
    prims = ("_get_rdataset", "_get_node", "_name_exists", "_iterate_names", "_iterate_rdatasets", "_put_rdataset", "_delete_name", "_delete_rdataset")
    n8 = 0
    for pn in prims:
        fp8 = zt.methods.get(pn)
        if fp8 is None:
            rep.blind("R-11.8", f"dns.zone.Transaction.{pn}", zt.file, "primitive not found in dns.zone.Transaction", stmt="reads-version")
            continue
        n8 += 1
        zone_uses = [a for a in ast.walk(fp8.node) if isinstance(a, ast.Attribute) and a.attr in ("zone", "manager") and src(a.value) == "self"]
        ver_uses = [a for a in ast.walk(fp8.node) if isinstance(a, ast.Attribute) and a.attr == "version" and src(a.value) == "self" and isinstance(a.ctx, ast.Load)]
        rep.check(not zone_uses and bool(ver_uses), "R-11.8", fp8.qualname, where(fp8, zone_uses[0] if zone_uses else fp8.node), "reads and writes go through self.version only",
                  (f"`{src(zone_uses[0])}` is used in a data primitive: the zone's own node map is the NEWEST version, not the one this transaction is pinned to - a reader opened before a commit sees the names of the later version"
                   if zone_uses else "the primitive no longer uses self.version"), stmt="reads-version")
    rep.floor("R-11.8", n8, 8)
    rep.assume("tuple and collections.abc.Mapping provide no mutating methods (interpreter builtins, introspected with hasattr)")
    rep.assume("a frozen dns.btree.BTreeDict rejects mutation (decided under C19 R-19.2)")
    rep.share(model, "C12", {"R-12.1"}, "R-11.7", "reader(id=N) pins version N only if pruning cannot run concurrently with its lookup-and-register step")
    rep.share(model, "C10", {"R-10.2", "R-10.4", "R-10.5", "R-10.15"}, "R-11.6", "ImmutableVersion.__init__ looks every name of version.changed up in version.nodes and replaces the node by a frozen one")
    rep.share(model, "C19", {"R-19.1", "R-19.2"}, "R-11.5", "a reader's version shares B-tree nodes with every later writable version")
    rep.share(model, "C07", {"R-07.8"}, "R-11.5", "committed rdatasets are frozen by wrapping their items in dns.immutable.Dict")
    rep.meta["explanation"] = (
        "Write-set (effect) analysis of every method reachable on the snapshot classes, resolved in the context of each immutable subclass; "
        "a mutator must be overridden by a raising body or be blocked because the field it mutates is rebound to a frozen container that lacks "
        "the operation. Plus CFG shape rules for freezing at commit, frozen read views and the pruning loop. Snapshot isolation over histories "
        "is NOT enumerated; it follows from R-10.3 + R-11.1/2 only informally.")


def _is_immutable_version_expr(model, f, arg):
    if arg is None:
        return False, "missing"
    if isinstance(arg, ast.Name) and arg.id in f.params():
        return True, "the caller's version (parameter passed through; call sites checked separately)"
    if isinstance(arg, ast.Call):
        fn = arg.func
        if isinstance(fn, ast.Name):
            defs = [src(n.value) for n in ast.walk(f.node) if isinstance(n, ast.Assign) and src(n.targets[0]) == fn.id]
            if defs and set(defs) <= {"self.immutable_version_factory", "ImmutableVersion"}:
                return True, "the result of the zone's immutable version factory"
            if fn.id == "ImmutableVersion":
                return True, "an ImmutableVersion"
        return False, f"the result of `{src(fn)}` (not the immutable factory)"
    return False, f"`{src(arg)}` (not produced by the immutable factory)"


WITNESSES = [
    {"id": "c11-iterate-names-from-zone", "rule": "R-11.8", "file": "dns/zone.py", "expect": "fires",
     "old": "        return self.version.keys()", "new": "        return self.zone.keys()"},
    {"id": "c11-name-exists-from-manager", "rule": "R-11.8", "file": "dns/zone.py", "expect": "fires",
     "old": "        return self.version.get_node(name) is not None", "new": "        return self.manager.get_node(name) is not None"},
    {"id": "c11-twin-iterate-names-local-version", "rule": "R-11.8", "file": "dns/zone.py", "expect": "silent",
     "old": "        return self.version.keys()", "new": "        version = self.version\n        return version.keys()"},
    {"id": "c11-end-read-prunes-only-when-no-readers", "rule": "R-11.4", "file": "dns/versioned.py", "expect": "fires",
     "old": "            self._readers.remove(txn)\n            self._prune_versions_unlocked()", "new": "            self._readers.remove(txn)\n            if len(self._readers) == 0:\n                self._prune_versions_unlocked()"},
    {"id": "c11-immutable-rdataset-aliases-source", "rule": "R-11.5", "file": "dns/rdataset.py", "expect": "fires",
     "old": "        self.items = dns.immutable.Dict(rdataset.items)", "new": "        self.items = dns.immutable.Dict(rdataset.items, True)"},
    {"id": "c11-btree-steal-writes-shared-node", "rule": "R-11.5", "file": "dns/btree.py", "expect": "fires",
     "old": "            if not right.is_minimal():\n                right = parent.maybe_cow_child(index + 1)\n", "new": "            if not right.is_minimal():\n"},
    {"id": "c11-items-plain-dict", "rule": "R-11.1", "file": "dns/rdataset.py", "expect": "fires",
     "old": "        self.items = dns.immutable.Dict(rdataset.items)", "new": "        self.items = dict(rdataset.items)"},
    {"id": "c11-rdatasets-list", "rule": "R-11.1", "file": "dns/zone.py", "expect": "fires",
     "old": "        self.rdatasets = tuple(\n            [dns.rdataset.ImmutableRdataset(rds) for rds in node.rdatasets]\n        )\n\n    def find_rdataset(\n        self,\n        rdclass: dns.rdataclass.RdataClass,\n        rdtype: dns.rdatatype.RdataType,\n        covers: dns.rdatatype.RdataType = dns.rdatatype.NONE,\n        create: bool = False,\n    ) -> dns.rdataset.Rdataset:\n        if create:\n            raise TypeError(\"immutable\")",
     "new": "        self.rdatasets = list(\n            [dns.rdataset.ImmutableRdataset(rds) for rds in node.rdatasets]\n        )\n\n    def find_rdataset(\n        self,\n        rdclass: dns.rdataclass.RdataClass,\n        rdtype: dns.rdatatype.RdataType,\n        covers: dns.rdatatype.RdataType = dns.rdatatype.NONE,\n        create: bool = False,\n    ) -> dns.rdataset.Rdataset:\n        if create:\n            raise TypeError(\"immutable\")"},
    {"id": "c11-clear-not-overridden", "rule": "R-11.1", "file": "dns/rdataset.py", "expect": "silent",
     "old": "    def clear(self):\n        raise TypeError(\"immutable\")\n\n    def __copy__(self):", "new": "    def __copy__(self):"},
    {"id": "c11-dict-grows-setitem", "rule": "R-11.1", "file": "dns/immutable.py", "expect": "fires",
     "old": "    def __len__(self):\n        return len(self._odict)", "new": "    def __len__(self):\n        return len(self._odict)\n\n    def pop(self, key, default=None):\n        return self._odict.pop(key, default)"},
    {"id": "c11-no-freeze-delegations", "rule": "R-11.2", "file": "dns/btreezone.py", "expect": "fires",
     "old": "        self.delegations = version.delegations\n        self.delegations.make_immutable()", "new": "        self.delegations = version.delegations"},
    {"id": "c11-mutable-first-version", "rule": "R-11.2", "file": "dns/versioned.py", "expect": "fires",
     "old": "self._commit_version_unlocked(None, ifactory(wfactory(self, True)), origin)", "new": "self._commit_version_unlocked(None, wfactory(self, True), origin)"},
    {"id": "c11-prune-max-reader", "rule": "R-11.4", "file": "dns/versioned.py", "expect": "fires",
     "old": "            least_kept = min(\n", "new": "            least_kept = max(\n"},
    {"id": "c11-versions-pop", "rule": "R-11.4", "file": "dns/versioned.py", "expect": "fires",
     "old": "            self._versions.popleft()", "new": "            self._versions.pop()"},
    {"id": "c11-get-unwrapped", "rule": "R-11.3", "file": "dns/transaction.py", "expect": "fires",
     "old": "        rdataset = self._get_rdataset(name, rdtype, covers)\n        return _ensure_immutable_rdataset(rdataset)", "new": "        rdataset = self._get_rdataset(name, rdtype, covers)\n        return rdataset"},
    {"id": "c11-vzone-delete-node-inherited", "rule": "R-11.3", "file": "dns/versioned.py", "expect": "silent",
     "old": "    def delete_node(self, name: dns.name.Name | str) -> None:\n        raise UseTransaction\n\n", "new": ""},
    {"id": "c11-vzone-find-forwards-create", "rule": "R-11.3", "file": "dns/versioned.py", "expect": "fires",
     "old": "        if create:\n            raise UseTransaction\n        return super().find_node(name)", "new": "        return super().find_node(name, create)"},
    {"id": "c11-prune-le", "rule": "R-11.4", "file": "dns/versioned.py", "expect": "fires",
     "old": "while self._versions[0].id < least_kept and self._pruning_policy(", "new": "while self._versions[0].id <= least_kept and self._pruning_policy("},
    {"id": "c11-glue-cow-not-recorded", "rule": "R-11.2", "file": "dns/btreezone.py", "expect": "fires",
     "old": "                new_node.rdatasets.extend(node.rdatasets)\n                self.changed.add(ename)\n", "new": "                new_node.rdatasets.extend(node.rdatasets)\n"},
]
