"""C16 stub resolution: sync/async twins, lifetime budget, bounded CNAME chain, cache keys, server bookkeeping."""
from __future__ import annotations

import ast

from engine.cfg import CFG, normalise_compare, atoms
from engine.model import src, stmt_key, dotted
from engine.twins import TwinSpec, project, first_difference, count_events
from engine import pat
from engine.util import own_nodes, calls_with_nodes, where

RULES = {
    "R-16.10": "a candidate that cannot be asked is skipped, not fatal: in _get_qnames_to_try every `qname + suffix` (or concatenate) over the search list sits in a try that handles dns.name.NameTooLong - a long relative name that is valid on its own must not make resolve() raise NameTooLong (not one of the documented outcomes) because one search suffix does not fit",
    "R-16.9": "a server that answers with something that is not a response to the query is 'broken' and dropped: dns.query.BadResponse (and the other reply-format errors) derive from dns.exception.FormError, the class query_result() reads as 'remove this server'",
    "R-16.8": "a resolver with an LRU cache returns answers, never KeyError: the cache's dict and recency ring change together in every method (rule of C17 R-17.4 dict/ring pairing, run here directly because C17 adopts C16 rules)",
    "R-16.7": "the two resolvers see the same outcome classes: a timed-out query is dns.exception.Timeout on every backend (C18 R-18.6 adopted), because query_result() retries a Timeout but drops a server for any other OSError",
    "R-16.1": "the synchronous and asynchronous resolvers (resolve loops, helper lookups, every Nameserver.query/async_query pair) project onto the same decisions and call arguments (modulo `backend`)",
    "R-16.2": "every query attempt gets its timeout from _compute_timeout(start, lifetime, errors), evaluated inside the attempt loop; _compute_timeout raises LifetimeTimeout at duration >= lifetime",
    "R-16.3": "resolve_chaining: every trip round the loop increments the counter compared with MAX_CHAIN; too long a chain raises",
    "R-16.4": "the cache keys read in next_request equal the cache keys written in query_result",
    "R-16.6": "optional numbers of the resolver (ndots, timeouts, lifetimes, ports) are tested for presence by identity with None, never by truthiness (ndots = 0 is a configuration, not 'unset')",
    "R-16.5": "a server that proved broken is removed from the list rounds are re-armed from; TCP retry is armed only after a UDP truncation and consumed once; NXDOMAIN is raised only when every candidate name is exhausted",
}

RES_EVENTS = {"_Resolution", "next_request", "next_nameserver", "sleep", "_compute_timeout", "query", "query_result", "time"}


def run(model, rep, tier):
    # ---------------------------------------------------------------- R-16.1
    spec = TwinSpec(events=set(RES_EVENTS), rename={"async_query": "query"}, drop_args={"backend"}, drop_args_for={"sleep": set()}, test_rename={})
    a = model.func("dns.resolver.Resolver.resolve")
    b = model.func("dns.asyncresolver.Resolver.resolve")
    pa, pb = project(model, a, spec), project(model, b, spec)
    n_ev = count_events(pa)
    d = first_difference(pa, pb)
    if n_ev < 8:
        rep.blind("R-16.1", "Resolver.resolve ~ async Resolver.resolve", where(a, a.node), f"projection has only {n_ev} events", stmt="twin")
    elif d is None:
        rep.ok("R-16.1", "dns.resolver.Resolver.resolve ~ dns.asyncresolver.Resolver.resolve", where(b, b.node), f"{n_ev} events, projections equal", stmt="twin")
    else:
        rep.bad("R-16.1", "dns.resolver.Resolver.resolve ~ dns.asyncresolver.Resolver.resolve", where(b, b.node), f"sync and async resolvers decide differently: {d}", stmt="twin")
    # helper lookups built on resolve()
    for name, ev in (("resolve_address", {"resolve", "from_address"}), ("resolve_name", {"resolve", "HostAnswers", "make"}), ("canonical_name", {"resolve", "canonical_name"})):
        fa = model.func(f"dns.resolver.Resolver.{name}")
        if not model.has_func(f"dns.asyncresolver.Resolver.{name}"):
            rep.bad("R-16.1", f"dns.asyncresolver.Resolver.{name}", "dns/asyncresolver.py", "async twin missing", stmt="twin")
            continue
        fb = model.func(f"dns.asyncresolver.Resolver.{name}")
        sp = TwinSpec(events=set(ev), drop_args={"backend"})
        p1, p2 = project(model, fa, sp), project(model, fb, sp)
        d = first_difference(p1, p2)
        if count_events(p1) == 0:
            rep.blind("R-16.1", f"Resolver.{name} twins", where(fa, fa.node), "empty projection", stmt="twin")
        elif d is None:
            rep.ok("R-16.1", f"dns.resolver.Resolver.{name} ~ dns.asyncresolver.Resolver.{name}", where(fb, fb.node), f"{count_events(p1)} events, projections equal", stmt="twin")
        else:
            rep.bad("R-16.1", f"dns.resolver.Resolver.{name} ~ dns.asyncresolver.Resolver.{name}", where(fb, fb.node), f"twins differ: {d}", stmt="twin")
    # nameserver classes
    n_ns = 0
    for ci in sorted(model.classes.values(), key=lambda c: c.qualname):
        if ci.module.name != "dns.nameserver" or "query" not in ci.methods or "async_query" not in ci.methods:
            continue
        q, aq = ci.methods["query"], ci.methods["async_query"]
        sp = TwinSpec(events={"udp", "tcp", "tls", "https", "quic"}, drop_args={"backend"})
        p1, p2 = project(model, q, sp), project(model, aq, sp)
        if count_events(p1) == 0 and count_events(p2) == 0:
            continue  # abstract base
        n_ns += 1
        d = first_difference(p1, p2)
        if d is None:
            rep.ok("R-16.1", f"{ci.qualname}.query ~ async_query", where(aq, aq.node), f"{count_events(p1)} events, same transport calls and arguments", stmt="twin")
        else:
            rep.bad("R-16.1", f"{ci.qualname}.query ~ async_query", where(aq, aq.node), f"sync and async transports are called differently: {d}", stmt="twin")
    rep.floor("R-16.1-nameservers", n_ns, 4)

    # ---------------------------------------------------------------- R-16.2
    for qn, qattr in (("dns.resolver.Resolver.resolve", "query"), ("dns.asyncresolver.Resolver.resolve", "async_query")):
        f = model.func(qn)
        cfg = CFG(f.node, implicit_exc=False)
        qs = [(n, c) for (n, c) in calls_with_nodes(cfg) if isinstance(c.func, ast.Attribute) and c.func.attr == qattr and isinstance(c.func.value, ast.Name)]
        if len(qs) != 1:
            rep.blind("R-16.2", qn, where(f, f.node), f"{len(qs)} query call sites", stmt="timeout-arg")
            continue
        (qn_node, qc) = qs[0]
        kw = {k.arg: src(k.value) for k in qc.keywords}
        tv = kw.get("timeout", "")
        rep.check(tv.isidentifier() and tv not in f.params(), "R-16.2", qn, where(f, qc), f"the attempt is given timeout={tv} (a local computed per attempt)", f"the attempt is given timeout={kw.get('timeout')}", stmt="timeout-arg")
        defs = [n for n in cfg.nodes if isinstance(n.ast, ast.Assign) and any(src(t) == tv for t in n.ast.targets)]
        e = pat.Env()
        okk = len(defs) == 1 and pat.match(pat.parse_expr("self._compute_timeout(__start, lifetime, __res.errors)"), defs[0].ast.value, e) \
            and cfg.dominated_by_set(qn_node.id, [defs[0].id]) and len(defs[0].loops) >= 2 and defs[0].loops == qn_node.loops
        rep.check(okk, "R-16.2", qn, where(f, defs[0].ast if defs else f.node), "timeout = self._compute_timeout(start, lifetime, resolution.errors) is recomputed inside the attempt loop before every query",
                  "the per-attempt timeout is not recomputed from the lifetime budget before every query (the resolution can outlive its lifetime)", stmt="timeout-def")
        sd = [n for n in cfg.nodes if isinstance(n.ast, ast.Assign) and any(src(t) == e.get("__start", "?") for t in n.ast.targets)]
        rep.check(len(sd) == 1 and src(sd[0].ast.value) == "time.time()" and not sd[0].loops, "R-16.2", qn, where(f, f.node), "start is read once, before the loops",
                  "the lifetime start time is re-read inside a loop (budget restarts)", stmt="start-once")
    ct = model.func("dns.resolver.BaseResolver._compute_timeout")
    cfg = CFG(ct.node, implicit_exc=False)
    e = pat.Env()
    dur_ok = pat.has(ct.node, "__now = time.time()", e) and pat.has(ct.node, "__dur = __now - start", e)
    D = e.get("__dur", "?")
    tests = [n for n in cfg.nodes if n.kind == "test" and atoms(normalise_compare(n.ast.test)) == [(D, ">=", "lifetime")]]
    raises = [n for n in cfg.nodes if isinstance(n.ast, ast.Raise) and "LifetimeTimeout" in src(n.ast)]
    rets = [n for n in cfg.nodes if isinstance(n.ast, ast.Return)]
    okk = len(tests) == 1 and any(cfg.edge_dominated(r.id, {(tests[0].id, "t")}) for r in raises) and all(cfg.edge_dominated(r.id, {(tests[0].id, "f")}) for r in rets) \
        and [" ".join(src(r.ast.value).split()) for r in rets] == [f"min(lifetime - {D}, self.timeout)"]
    rep.check(okk, "R-16.2", ct.qualname, where(ct, ct.node), "raises LifetimeTimeout when duration >= lifetime, else returns min(remaining, per-query timeout)",
              "_compute_timeout no longer (raises at duration >= lifetime, returns min(lifetime - duration, self.timeout))", stmt="budget")
    t = " ".join(src(ct.node).split())
    rep.check(dur_ok, "R-16.2", ct.qualname, where(ct, ct.node), "duration = now - start", "duration computed differently", stmt="duration")

    # ---------------------------------------------------------------- R-16.3
    rc = model.func("dns.message.QueryMessage.resolve_chaining")
    cfg = CFG(rc.node, implicit_exc=False)
    loops = [n for n in cfg.nodes if n.kind == "test" and isinstance(n.ast, ast.While) and len(atoms(normalise_compare(n.ast.test))) == 1 and atoms(normalise_compare(n.ast.test))[0][1:] == ("<", "MAX_CHAIN")]
    CNT = atoms(normalise_compare(loops[0].ast.test))[0][0] if len(loops) == 1 else "?"
    if len(loops) != 1:
        rep.blind("R-16.3", rc.qualname, where(rc, rc.node), "chain loop `while count < MAX_CHAIN` not found", stmt="chain-loop")
    else:
        head = loops[0]
        incs = [n.id for n in cfg.nodes if isinstance(n.ast, ast.AugAssign) and src(n.ast) == f"{CNT} += 1"]
        starts = [y for (y, k) in cfg.succ[head.id] if k == "t"]
        r = cfg.reachable(starts, blocked=incs)
        rep.check(bool(incs) and head.id not in r, "R-16.3", rc.qualname, where(rc, head.ast), "every trip round the chain loop passes `count += 1`",
                  "the chain loop can iterate without incrementing the counter: a CNAME loop never terminates", stmt="counter")
        after = [n for n in cfg.nodes if n.kind == "test" and atoms(normalise_compare(n.ast.test)) == [(CNT, ">=", "MAX_CHAIN")]]
        okk = len(after) == 1 and any(isinstance(s, ast.Raise) and "ChainTooLong" in src(s) for s in after[0].ast.body)
        rep.check(okk, "R-16.3", rc.qualname, where(rc, rc.node), "a chain of MAX_CHAIN CNAMEs raises ChainTooLong", "an over-long chain no longer raises", stmt="too-long")
    mc = model.module("dns.message").assigns.get("MAX_CHAIN")
    rep.check(mc is not None and isinstance(model.const(model.module("dns.message"), mc), int), "R-16.3", "dns.message.MAX_CHAIN", "dns/message.py", "MAX_CHAIN is a finite integer constant", "MAX_CHAIN is not a constant integer", stmt="bound")
    t = " ".join(src(rc.node).split())
    e = pat.Env()
    mins = pat.find_all(rc.node, "__m = min(__m, __x.ttl)")
    crs = [c for c in ast.walk(rc.node) if isinstance(c, ast.Call) and src(c.func) == "ChainingResult" and len(c.args) >= 3]
    okk = len(mins) == 2 and len({m[1]["__x"] for m in mins}) == 2 and len({m[1]["__m"] for m in mins}) == 1 and pat.has(rc.node, "__m = min(__m, __s.ttl, __sd.minimum)", e) \
        and e["__m"] == mins[0][1]["__m"] and len(crs) == 1 and src(crs[0].args[2]) == e["__m"]
    rep.check(okk, "R-16.3", rc.qualname, where(rc, rc.node),
              "minimum TTL over the answer, every CNAME followed, and (negative) the SOA ttl/minimum", "minimum-TTL accumulation changed", stmt="min-ttl")

    # the chain cursor: the name moved along the CNAME chain is the one looked up, the one the negative-TTL SOA walk starts from, and the canonical name returned
    curs = sorted({n.targets[0].id for n in ast.walk(rc.node) if isinstance(n, ast.Assign) and len(n.targets) == 1 and isinstance(n.targets[0], ast.Name) and isinstance(n.value, ast.Attribute) and n.value.attr == "target"})
    if len(curs) != 1:
        rep.blind("R-16.3", rc.qualname, where(rc, rc.node), f"chain cursor (`<name> = rd.target`) not identified: {curs}", stmt="chain-cursor")
    else:
        V = curs[0]
        finds = [c for c in ast.walk(rc.node) if isinstance(c, ast.Call) and src(c.func) == "self.find_rrset" and len(c.args) >= 2]
        ans = [c for c in finds if src(c.args[0]) == "self.answer"]
        aut = [c for c in finds if src(c.args[0]) == "self.authority"]
        rep.floor("R-16.3-finds", len(ans) + len(aut), 3)
        for c in ans:
            rep.check(src(c.args[1]) == V, "R-16.3", rc.qualname, where(rc, c), f"answer lookup uses the chain cursor `{V}`", f"answer lookup uses `{src(c.args[1])}` instead of the chain cursor `{V}`: the CNAME chain is not followed", stmt="cursor-answer " + src(c.args[3]) if len(c.args) > 3 else "cursor-answer")
        for c in aut:
            X = src(c.args[1])
            defs = sorted({" ".join(src(n.value).split()) for n in ast.walk(rc.node) if isinstance(n, ast.Assign) and any(src(t_) == X for t_ in n.targets)}) if X != V else [V]
            rep.check(X == V or defs == sorted({V, f"{X}.parent()"}), "R-16.3", rc.qualname, where(rc, c), f"the SOA walk for the negative TTL starts at the end of the chain (`{X}` = {defs})",
                      f"the SOA walk variable `{X}` is defined by {defs}, not by the chain cursor `{V}` and its parents: for a CNAME into another zone the bounding SOA is never found and the negative answer is cached for the CNAME's TTL", stmt="cursor-soa")
        rets = [r for r in ast.walk(rc.node) if isinstance(r, ast.Return) and isinstance(r.value, ast.Call) and src(r.value.func) == "ChainingResult"]
        rep.check(len(rets) == 1 and rets[0].value.args and src(rets[0].value.args[0]) == V, "R-16.3", rc.qualname, where(rc, rc.node), f"the canonical name returned is the chain cursor `{V}`",
                  "the canonical name returned is not the end of the chain", stmt="cursor-returned")

    # ---------------------------------------------------------------- R-16.4
    nr = model.func("dns.resolver._Resolution.next_request")
    qr = model.func("dns.resolver._Resolution.query_result")
    gets = sorted({" ".join(src(c.args[0]).split()) for c in ast.walk(nr.node) if isinstance(c, ast.Call) and src(c.func) == "self.resolver.cache.get"})
    puts = sorted({" ".join(src(c.args[0]).split()) for c in ast.walk(qr.node) if isinstance(c, ast.Call) and src(c.func) == "self.resolver.cache.put"})
    rep.check(gets == puts and len(gets) == 2, "R-16.4", "dns.resolver._Resolution", where(qr, qr.node), f"cache is read and written under the same keys: {gets}",
              f"cache keys differ: read under {gets}, written under {puts} – answers are cached where they are never looked up (or under the wrong class)", stmt="cache-keys")
    want = ["(self.qname, dns.rdatatype.ANY, self.rdclass)", "(self.qname, self.rdtype, self.rdclass)"]
    rep.check(gets == want, "R-16.4", nr.qualname, where(nr, nr.node), "keys are (qname, rdtype, rdclass) and (qname, ANY, rdclass)", f"lookup keys are {gets}", stmt="key-shapes")
    # what is put under the positive key is the Answer built for (qname, rdtype, rdclass)
    pos = [c for c in ast.walk(qr.node) if isinstance(c, ast.Call) and src(c.func) == "Answer"]
    first = [" ".join(src(a).split()) for a in pos[0].args[:4]] if pos else []
    rep.check(first == ["self.qname", "self.rdtype", "self.rdclass", "response"], "R-16.4", qr.qualname, where(qr, qr.node), "positive answers are built for (qname, rdtype, rdclass, response)",
              f"the positive Answer is built from {first}", stmt="answer-args")

    # ---------------------------------------------------------------- R-16.5
    cfg = CFG(qr.node, implicit_exc=False)
    removes = [n for n in cfg.nodes if isinstance(n.ast, ast.Expr) and src(n.ast) == "self.nameservers.remove(self.nameserver)"]
    rep.floor("R-16.5-removes", len(removes), 5)
    t = " ".join(src(qr.node).split())
    rep.check("if isinstance(ex, dns.exception.FormError) or isinstance(ex, EOFError) or isinstance(ex, OSError) or isinstance(ex, NotImplementedError): self.nameservers.remove(self.nameserver)" in t,
              "R-16.5", qr.qualname, where(qr, qr.node), "malformed reply / EOF / OS error / not-implemented removes the server for good", "a server answering garbage (or failing at the OS level) is no longer dropped", stmt="remove-on-broken")
    rep.check("elif isinstance(ex, dns.message.Truncated): if self.tcp_attempt: self.nameservers.remove(self.nameserver) else: self.retry_with_tcp = True" in t, "R-16.5", qr.qualname, where(qr, qr.node),
              "truncation: retry over TCP once on the same server; truncated over TCP removes it", "truncation handling changed (TCP retry is not armed exactly for a UDP truncation)", stmt="truncation")
    rep.check(pat.has(qr.node, "if __rc != dns.rcode.SERVFAIL or not self.resolver.retry_servfail:\n    self.nameservers.remove(self.nameserver)"), "R-16.5", qr.qualname, where(qr, qr.node),
              "other rcodes remove the server unless it is SERVFAIL with retry_servfail", "bad-rcode servers are no longer removed", stmt="remove-on-rcode")
    sets = [n for n in ast.walk(model.cls("dns.resolver._Resolution").node) if isinstance(n, ast.Assign) and src(n.targets[0]) == "self.retry_with_tcp" and src(n.value) == "True"]
    rep.check(len(sets) == 1, "R-16.5", "dns.resolver._Resolution", where(qr, qr.node), "retry_with_tcp is armed at exactly one site", f"retry_with_tcp is armed at {len(sets)} sites", stmt="arm-once")
    nn = model.func("dns.resolver._Resolution.next_nameserver")
    t2 = " ".join(src(nn.node).split())
    rep.check("if self.retry_with_tcp:" in t2 and "self.tcp_attempt = True self.retry_with_tcp = False return (self.nameserver, True, 0)" in t2, "R-16.5", nn.qualname, where(nn, nn.node),
              "the TCP retry is consumed once, on the same server, without back-off", "TCP retry is not (consumed once on the same server)", stmt="consume-retry")
    rep.check(pat.has(nn.node, "if not self.current_nameservers:\n    if len(self.nameservers) == 0:\n        raise NoNameservers(request=self.request, errors=self.errors)\n    self.current_nameservers = self.nameservers[:]\n    __b = self.backoff\n    self.backoff = min(self.backoff * 2, 2)\n    ..."),
              "R-16.5", nn.qualname, where(nn, nn.node), "a new round is armed from the surviving servers with exponential back-off; none left raises NoNameservers", "round re-arming / NoNameservers changed", stmt="rearm")
    rep.check("self.nameserver = self.current_nameservers.pop(0)" in t2, "R-16.5", nn.qualname, where(nn, nn.node), "servers are tried in order within a round", "server selection changed", stmt="in-order")
    c2 = CFG(nr.node, implicit_exc=False)
    loops = [n for n in c2.nodes if n.kind == "test" and isinstance(n.ast, ast.While) and atoms(normalise_compare(n.ast.test)) == [("len(self.qnames)", ">", "0")]]
    nx = [n for n in c2.nodes if isinstance(n.ast, ast.Raise) and src(n.ast).startswith("raise NXDOMAIN(")]
    okk = len(loops) == 1 and len(nx) == 1 and c2.edge_dominated(nx[0].id, {(loops[0].id, "f")})
    rep.check(okk, "R-16.5", nr.qualname, where(nr, nr.node), "NXDOMAIN is raised only after every candidate name was consumed", "NXDOMAIN can be raised while candidate names remain", stmt="nxdomain-last")
    t3 = " ".join(src(nr.node).split())
    rep.check(pat.has(nr.node, "self.current_nameservers = self.nameservers[:]\nself.errors = []\nself.nameserver = None\nself.tcp_attempt = False\nself.retry_with_tcp = False\nself.request = __r\nself.backoff = 0.1"),
              "R-16.5", nr.qualname, where(nr, nr.node), "each new candidate name starts with a full server list and clean retry state", "per-name state reset changed", stmt="reset-per-name")
    rep.check("self.nxdomain_responses[self.qname] = response" in t and "return (None, True)" in t, "R-16.5", qr.qualname, where(qr, qr.node), "NXDOMAIN for one candidate records the evidence and moves to the next name",
              "NXDOMAIN handling for a candidate changed", stmt="nxdomain-next")
    # ---------------------------------------------------------------- R-16.6
    from rules.common import presence_by_identity
    presence_by_identity(model, rep, "R-16.6", ("dns.resolver", "dns.asyncresolver", "dns.nameserver"), ("timeout", "lifetime", "ndots"), "an optional number",
                         "e.g. ndots = 0 is silently treated as 1 and search-list candidates are tried before the absolute name", 3, "dns.resolver / dns.asyncresolver / dns.nameserver")
    for cq in ("dns.query.BadResponse", "dns.message.BadEDNS", "dns.message.BadTSIG", "dns.message.TrailingJunk", "dns.message.ShortHeader"):
        ck = model.cls(cq)
        rep.check(model.is_subclass(ck, "dns.exception.FormError"), "R-16.9", cq, f"{ck.file}:{ck.node.lineno}", "a FormError: the resolver drops the server",
                  f"{cq} no longer derives from dns.exception.FormError: query_result() does not recognise it as a broken-server error, so the server stays in the mix and is asked again every round "
                  "(LifetimeTimeout instead of NoNameservers)", stmt="formerror-family")
    from rules.c17 import check_lru_pairs
    check_lru_pairs(model, rep, "R-16.8")
    rep.share(model, "C18", {"R-18.1", "R-18.2", "R-18.4", "R-18.5", "R-18.6", "R-18.11"}, "R-16.7", "_Resolution.query_result classifies exceptions: Timeout -> try again later, other OSError/FormError -> remove the server")
    # ---------------------------------------------------------------- R-16.10
    gq = model.func("dns.resolver.BaseResolver._get_qnames_to_try")
    par10 = {id(ch): pr for pr in ast.walk(gq.node) for ch in ast.iter_child_nodes(pr)}
    n10 = 0
    for lp in [x for x in ast.walk(gq.node) if isinstance(x, ast.For) and isinstance(x.target, ast.Name)]:
        tv = lp.target.id
        for e10 in ast.walk(lp):
            joins = (isinstance(e10, ast.BinOp) and isinstance(e10.op, ast.Add) and any(isinstance(o, ast.Name) and o.id == tv for o in (e10.left, e10.right))) or \
                    (isinstance(e10, ast.Call) and isinstance(e10.func, ast.Attribute) and e10.func.attr == "concatenate" and any(isinstance(o, ast.Name) and o.id == tv for o in e10.args))
            if not joins:
                continue
            n10 += 1
            cur, child, handled = par10.get(id(e10)), e10, False
            while cur is not None and cur is not lp:
                if isinstance(cur, ast.Try) and any(child is b for b in cur.body):
                    for h in cur.handlers:
                        ht = [src(h.type)] if h.type is not None and not isinstance(h.type, ast.Tuple) else ([src(x) for x in h.type.elts] if h.type is not None else ["BaseException"])
                        if any(x.endswith(("NameTooLong", "FormError", "DNSException", "Exception")) for x in ht) and not any(isinstance(b, ast.Raise) for b in h.body):
                            handled = True
                child, cur = cur, par10.get(id(cur))
            rep.check(handled, "R-16.10", gq.qualname, where(gq, e10), f"`{src(e10)}`: a suffix that makes the name too long is skipped",
                      f"`{src(e10)}` can raise dns.name.NameTooLong (a 245-octet relative name plus a search suffix) and nothing handles it: resolve() ends with NameTooLong instead of trying the remaining candidates", stmt="search-join")
    rep.floor("R-16.10", n10, 1)
    rep.meta["explanation"] = (
        "Twin projection of the sync/async resolve loops, helper lookups and the five Nameserver classes (call arguments compared modulo `backend`), def-use/dominance rule for the lifetime budget, "
        "a cycle-must-pass-increment check for the CNAME chain, and set comparison of cache keys. The outcome for every fault sequence and the search-list rules are NOT decided.")


WITNESSES = [
    {"id": "c16-search-suffix-too-long-is-fatal", "rule": "R-16.10", "file": "dns/resolver.py", "expect": "fires",
     "old": "                    try:\n                        qnames_to_try.append(qname + suffix)\n                    except dns.name.NameTooLong:\n                        # This candidate cannot be asked; the others still can.\n                        pass", "new": "                    qnames_to_try.append(qname + suffix)"},
    {"id": "c16-twin-search-suffix-concatenate", "rule": "R-16.10", "file": "dns/resolver.py", "expect": "silent",
     "old": "                        qnames_to_try.append(qname + suffix)\n                    except dns.name.NameTooLong:", "new": "                        candidate = qname.concatenate(suffix)\n                        qnames_to_try.append(candidate)\n                    except dns.name.NameTooLong:"},
    {"id": "c16-ndots-zero-taken-for-unset", "rule": "R-16.6", "file": "dns/resolver.py", "expect": "fires",
     "old": "                if self.ndots is None:\n                    ndots = 1\n                else:\n                    ndots = self.ndots\n", "new": "                ndots = self.ndots or 1\n"},
    {"id": "c16-soa-walk-from-question-name", "rule": "R-16.3", "file": "dns/message.py", "expect": "fires",
     "old": "            auname = qname\n", "new": "            auname = question.name\n"},
    {"id": "c16-cname-lookup-at-question-name", "rule": "R-16.3", "file": "dns/message.py", "expect": "fires",
     "old": "                            self.answer, qname, question.rdclass, dns.rdatatype.CNAME", "new": "                            self.answer, question.name, question.rdclass, dns.rdatatype.CNAME"},
    {"id": "c16-async-ignores-lifetime", "rule": "R-16.1", "file": "dns/asyncresolver.py", "expect": "fires",
     "old": "                timeout = self._compute_timeout(start, lifetime, resolution.errors)", "new": "                timeout = self.timeout"},
    {"id": "c16-sync-timeout-outside-loop", "rule": "R-16.2", "file": "dns/resolver.py", "expect": "fires",
     "old": "            done = False\n            while not done:\n                nameserver, tcp, backoff = resolution.next_nameserver()\n                if backoff:\n                    time.sleep(backoff)\n                timeout = self._compute_timeout(start, lifetime, resolution.errors)\n",
     "new": "            done = False\n            timeout = self._compute_timeout(start, lifetime, resolution.errors)\n            while not done:\n                nameserver, tcp, backoff = resolution.next_nameserver()\n                if backoff:\n                    time.sleep(backoff)\n"},
    {"id": "c16-cache-class-in", "rule": "R-16.4", "file": "dns/resolver.py", "expect": "fires",
     "old": "                self.resolver.cache.put((self.qname, self.rdtype, self.rdclass), answer)", "new": "                self.resolver.cache.put((self.qname, self.rdtype, dns.rdataclass.IN), answer)"},
    {"id": "c16-chain-no-increment", "rule": "R-16.3", "file": "dns/message.py", "expect": "fires",
     "old": "                            qname = rd.target\n                            break\n                        count += 1\n                        continue", "new": "                            qname = rd.target\n                            break\n                        continue"},
    {"id": "c16-formerr-server-kept", "rule": "R-16.5", "file": "dns/resolver.py", "expect": "fires",
     "old": "                isinstance(ex, dns.exception.FormError)\n                or isinstance(ex, EOFError)", "new": "                isinstance(ex, EOFError)"},
    {"id": "c16-async-doh-different-args", "rule": "R-16.1", "file": "dns/nameserver.py", "expect": "fires",
     "old": "        return await dns.asyncquery.https(\n            request,\n            self.url,\n            timeout=timeout,", "new": "        return await dns.asyncquery.https(\n            request,\n            self.url,\n            timeout=None,"},
    {"id": "c16-lifetime-exclusive", "rule": "R-16.2", "file": "dns/resolver.py", "expect": "fires",
     "old": "        if duration >= lifetime:\n            raise LifetimeTimeout", "new": "        if duration > lifetime + 1:\n            raise LifetimeTimeout"},
    {"id": "c16-tcp-retry-always", "rule": "R-16.5", "file": "dns/resolver.py", "expect": "fires",
     "old": "                if self.tcp_attempt:\n                    # Truncation with TCP is no good!\n                    self.nameservers.remove(self.nameserver)\n                else:\n                    self.retry_with_tcp = True", "new": "                self.retry_with_tcp = True"},
    {"id": "c16-twin-comment-and-blank", "rule": "R-16.1", "file": "dns/asyncresolver.py", "expect": "silent",
     "old": "                if backoff:\n                    await backend.sleep(backoff)", "new": "                if backoff:\n                    # pause before re-arming the round\n                    await backend.sleep(backoff)"},
]
